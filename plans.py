"""Per-property job plans (what each check runs), evidence levels, rules and assumptions."""


def sess(profile, props, sessions, time_s, **kw):
    args = {"profile": profile, "props": props, "sessions": sessions, "time": time_s}
    args.update(kw.pop("args", {}))
    j = {"mode": "sess", "args": args, "timeout": time_s * 6 + 240}
    j.update(kw)
    return j


def job(mode, timeout=900, **kw):
    j = {"mode": mode, "args": kw.pop("args", {}), "timeout": timeout}
    j.update(kw)
    return j


PLANS = {
    "C01": {
        "quick": [sess("tree", "C01", 400, 40), sess("mixed", "C01", 200, 20)],
        "thorough": [sess("tree", "C01", 6000, 420), sess("mixed", "C01", 3000, 240), sess("tree", "C01", 800, 90, variant="nouni")],
        "floor": 2000,
    },
    "C02": {
        "quick": [sess("file", "C02", 400, 45)],
        "thorough": [sess("file", "C02", 6000, 420)],
        "floor": 2000,
    },
    "C03": {
        "quick": [sess("mixed", "C03", 300, 30), sess("alloc", "C03", 300, 30)],
        "thorough": [sess("mixed", "C03", 4000, 300), sess("alloc", "C03", 4000, 300)],
        "floor": 2000,
    },
    "C04": {
        "quick": [sess("remount", "C04", 400, 45, args={"shadow": 1})],
        "thorough": [sess("remount", "C04", 5000, 400, args={"shadow": 1})],
        "floor": 2000,
    },
    "C05": {
        "quick": [sess("alloc", "C05", 500, 45)],
        "thorough": [sess("alloc", "C05", 6000, 420)],
        "floor": 2000,
    },
    "C10": {
        "quick": [sess("mixed", "C10", 400, 40)],
        "thorough": [sess("mixed", "C10", 5000, 300)],
        "floor": 2000,
    },
    "C11": {
        "quick": [sess("mixed", "C11", 400, 40, args={"short": 1})],
        "thorough": [sess("mixed", "C11", 5000, 300, args={"short": 1})],
        "floor": 2000,
    },
    "C12": {
        "quick": [sess("remount", "C12", 400, 40, args={"shadow": 1})],
        "thorough": [sess("remount", "C12", 5000, 300, args={"shadow": 1})],
        "floor": 2000,
    },
}

LEVELS = {p: "exploration" for p in ["C%02d" % i for i in range(1, 21)]}
LEVELS["C09"] = "fault_enumeration"
LEVELS["C14"] = "fault_enumeration"

RULES = {
    "C01": "seeded random operation histories (namespace heavy) over the volume configuration grid, executed against the real crate; every call judged against the reference tree, the raw image re-decoded and re-listed after every call. distinct = distinct (config class, op kind, result kind, reference-tree state hash) tuples",
    "C02": "seeded random file-I/O histories on 1-6 simultaneously open files; every read/write/seek/truncate judged against a byte-array+cursor model, raw content re-decoded after every call. distinct = distinct (config class, op kind, result kind, model state hash) tuples",
    "C03": "independent fsck (invariants I1-I12) of the raw image after every call of random and allocation-heavy histories. distinct = (config class, op kind, result kind, model state hash) tuples",
    "C04": "session view vs. second mount of a copy of the image at every call boundary vs. independent decode; device bytes at File::extents vs. content for every live handle after every call. distinct as C01",
    "C05": "stats() vs. raw FAT free count after every call once armed, FS-info after every unmount, out-of-space admissibility; tiny volumes driven to full. distinct as C01",
    "C10": "byte comparison of FAT copies, reserved entries, padding entries and FAT32 top nibbles between consecutive call boundaries. distinct as C01",
    "C11": "every device write of every call classified against the independent region/ownership map of the image before and after the call. distinct as C01",
    "C12": "status byte examined at every call boundary against a structural-change latch; copy of the image mounted at every boundary to read the dirty report. distinct as C01",
}

ASSUMPTIONS = {
    "*": [
        "verdict covers only the executions described in coverage; nothing is claimed for histories, inputs or configurations that were not executed",
        "the independent decoder (harness/src/fatck.rs) implements the FAT specification correctly; it shares no code with the crate",
        "generators respect the crate's documented preconditions (one File handle per file, no remove/rename of objects with live handles)",
    ],
}

LEVEL_TEXT = {
    "C01": "Exploration: reference-model monitor over ~10^6 executed API calls per quick run (random histories over the configuration grid, several live handles); every call's result kind and the resulting tree are judged. Right level because the property quantifies over histories x configurations, which can only be sampled; bounded-exhaustive enumeration of short histories is added in the thorough tier.",
    "C02": "Exploration: byte-array+cursor model monitor on every read/write/seek/truncate of random interleavings over 1-6 open files plus an executed boundary grid around cluster multiples for every cluster size class.",
    "C03": "Exploration: independent fsck of the raw image after every single call of random and fill-to-full histories; invariant-at-quiescent-point monitor.",
    "C04": "Exploration: three-way comparison (session model, second mount of a copy, independent decode) at every call boundary, plus extents-vs-content for every live handle.",
    "C05": "Exploration: online conservation monitor (stats() == raw free count after every call, FS-info after every unmount, out-of-space admissibility) over allocation heavy histories on tiny and regular volumes.",
    "C10": "Exploration: byte-level comparison of FAT copies / reserved entries / padding / FAT32 top nibbles between consecutive call boundaries.",
    "C11": "Exploration: offline checker over the device write log of every call against the independent region/ownership map.",
    "C12": "Exploration: temporal monitor (structural-change latch vs. dirty bit) at every call boundary, with a copy of the image mounted at every boundary.",
}
LEVEL_NOTE = {
    "*": "Trusted base: the harness (device, independent decoder fatck, reference model) and rustc's dynamic checks (overflow checks, debug assertions, bounds checks are ON in the relcheck profile). Only executed histories are covered; see evidence coverage for what was observed.",
}
TECHNIQUE = {
    "C01": "runtime monitoring: reference-model (in-memory tree) oracle + independent raw decode after every call",
    "C02": "runtime monitoring: byte-array/cursor model oracle on every file call, raw re-read",
    "C03": "runtime monitoring: independent fsck invariants evaluated on the raw image after every call",
    "C04": "runtime monitoring: differential observation (session vs second mount vs independent decoder) at every boundary",
    "C05": "runtime monitoring: conservation monitor stats() vs raw FAT, FS-info checker",
    "C10": "runtime monitoring: raw FAT copy/reserved-bit comparator at every call boundary",
    "C11": "runtime monitoring: offline checker over the device write event log vs ownership map",
    "C12": "runtime monitoring: temporal monitor over the status byte at every call boundary",
}
DESIGN_REF = {}
NOT_APPLICABLE = []
