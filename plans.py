"""Per-property job plans (what each check runs), evidence levels, rules and assumptions."""


def sess(gen, props, sessions, time_s, **kw):
    args = {"profile": gen, "props": props, "sessions": sessions, "time": time_s}
    args.update(kw.pop("args", {}))
    j = {"mode": "sess", "args": args, "timeout": time_s * 6 + 240}
    j.update(kw)
    return j


def job(mode, timeout=900, **kw):
    j = {"mode": mode, "args": kw.pop("args", {}), "timeout": timeout}
    j.update(kw)
    return j


PLANS = {
    "C01": {
        "quick": [sess("tree", "C01", 400, 25), sess("mixed", "C01", 200, 12), sess("rootfill", "C01", 200, 10), sess("dirfill", "C01", 100, 10), job("c01enum"), job("iterwalk")],
        "thorough": [sess("tree", "C01", 6000, 420), sess("mixed", "C01", 3000, 240), sess("rootfill", "C01", 3000, 120), sess("dirfill", "C01", 2000, 120), sess("tree", "C01", 800, 90, variant="nouni"), job("c01enum", timeout=3600), sess("tree", "C01", 2000, 120, args={"builder": 1}), job("iterwalk", timeout=3600), job("iterwalk", variant="noalloc", timeout=3600)],
        "floor": 2000,
    },
    "C02": {
        "quick": [sess("file", "C02", 1200, 30), job("c02grid"), job("stdio", shards=4)],
        "thorough": [sess("file", "C02", 6000, 420), job("c02grid", timeout=3600), sess("file", "C02", 2000, 120, profile="relwrap"), job("stdio")],
        "floor": 2000,
    },
    "C03": {
        "quick": [sess("mixed", "C03", 300, 20), sess("alloc", "C03", 300, 15), sess("rootfill", "C03", 300, 15), sess("dirfill", "C03", 150, 15), job("interleave")],
        "thorough": [sess("mixed", "C03", 4000, 300), sess("alloc", "C03", 4000, 300), sess("rootfill", "C03", 4000, 180), sess("dirfill", "C03", 3000, 180), job("interleave", timeout=3600)],
        "floor": 2000,
    },
    "C04": {
        "quick": [sess("remount", "C04", 1200, 45, args={"shadow": 1})],
        "thorough": [sess("remount", "C04", 5000, 400, args={"shadow": 1})],
        "floor": 2000,
    },
    "C05": {
        "quick": [sess("alloc", "C05", 500, 30), sess("rootfill", "C05", 200, 10), sess("dirfill", "C05", 150, 12), job("c05cycle"), sess("alloc", "C05", 150, 12, args={"builder": 1, "nolibwalk": 1}), job("c05fault")],
        "thorough": [sess("alloc", "C05", 6000, 420), sess("rootfill", "C05", 3000, 120), sess("dirfill", "C05", 3000, 180), job("c05cycle", timeout=3600), sess("alloc", "C05", 2000, 120, args={"builder": 1, "nolibwalk": 1}), job("c05fault")],
        "floor": 2000,
    },
    "C10": {
        "quick": [sess("mixed", "C10", 400, 20), sess("mixed", "C10", 200, 20, args={"builder": 1, "nolibwalk": 1}), sess("dirfill", "C10", 300, 20, args={"builder": 1, "nolibwalk": 1})],
        "thorough": [sess("mixed", "C10", 5000, 300), sess("mixed", "C10", 3000, 300, args={"builder": 1, "nolibwalk": 1}), sess("dirfill", "C10", 4000, 240, args={"builder": 1, "nolibwalk": 1}), sess("alloc", "C10", 3000, 180)],
        "floor": 2000,
    },
    "C11": {
        "quick": [sess("mixed", "C11", 400, 20, args={"short": 1}), sess("dirfill", "C11", 150, 12), sess("alloc", "C11", 200, 12), sess("mixed", "C11", 200, 25, args={"builder": 1, "short": 1, "nolibwalk": 1})],
        "thorough": [sess("mixed", "C11", 5000, 300, args={"short": 1}), sess("dirfill", "C11", 3000, 180), sess("alloc", "C11", 3000, 180), sess("mixed", "C11", 3000, 300, args={"builder": 1, "short": 1, "nolibwalk": 1})],
        "floor": 2000,
    },
    "C12": {
        "quick": [sess("remount", "C12", 1200, 35, args={"shadow": 1, "statusbits": 1}), job("c12fault")],
        "thorough": [sess("remount", "C12", 5000, 300, args={"shadow": 1, "statusbits": 1}), job("c12fault"), sess("mixed", "C12", 2000, 120, args={"builder": 1, "nolibwalk": 1})],
        "floor": 2000,
    },
}

PLANS.update({
    "C06": {
        "quick": [job("c06"), job("c06", profile="relwrap")],
        "thorough": [job("c06", timeout=3600), job("c06", profile="relwrap", timeout=3600, args={"part": "real"})],
        "floor": 100000,
    },
    "C07": {
        "quick": [job("c07"), job("c07", profile="relwrap")],
        "thorough": [job("c07"), job("c07", profile="relwrap"), job("mirismoke", miri=True, shards=8, timeout=1800, args={"n": 30})],
        "floor": 100000,
    },
    "C09": {
        "quick": [job("c09"), job("stdio", shards=4)],
        "thorough": [job("c09", timeout=3600), job("c09", variant="noalloc", timeout=3600), job("stdio")],
        "floor": 20000,
    },
    "C14": {
        "quick": [job("c14", args={"sessions": 1000, "time": 50}), job("c14fault")],
        "thorough": [job("c14", args={"sessions": 6000, "time": 480}, timeout=3600), job("c14fault")],
        "floor": 20000,
    },
    "C08": {
        "quick": [job("c08")],
        "thorough": [job("c08", timeout=3600), job("c08", variant="noalloc", timeout=3600, args={"images": 600})],
        "floor": 5000,
    },
    "C13": {
        "quick": [job("c13", args={"sessions": 400, "time": 40})],
        "thorough": [job("c13", args={"sessions": 6000, "time": 400}, timeout=3600)],
        "floor": 5000,
    },
    "C19": {
        "quick": [job("c19", trace=True), job("c19", trace=True, variant="noalloc"), job("c19", trace=True, variant="nouni")],
        "thorough": [job("c19", trace=True), job("c19", trace=True, variant="noalloc"), job("c19", trace=True, variant="nouni")],
        "floor": 5000,
        "post": "c19",
    },
    "C20": {
        "quick": [job("c20"), job("c20", profile="relwrap")],
        "thorough": [job("c20", timeout=3600), job("c20", profile="relwrap", timeout=3600)],
        "floor": 2000,
    },
    "C15": {
        "quick": [job("c15"), job("c15", variant="nouni")],
        "thorough": [job("c15"), job("c15", variant="nouni"), job("c15", profile="relwrap")],
        "floor": 50000,
    },
    "C16": {
        "quick": [job("c16"), sess("tree", "C16", 200, 15)],
        "thorough": [job("c16", timeout=3600), job("c16", variant="nouni", timeout=3600), sess("tree", "C16", 3000, 200)],
        "floor": 10000,
    },
    "C18": {
        "quick": [job("c18"), sess("file", "C18", 600, 25, args={"atime": 1, "nolibwalk": 1})],
        "thorough": [job("c18"), job("c18", profile="relwrap"), sess("file", "C18", 6000, 300, args={"atime": 1, "nolibwalk": 1}), sess("tree", "C18", 3000, 200, args={"atime": 1, "nolibwalk": 1})],
        "floor": 100000,
    },
    "C17": {
        "quick": [job("c17"), job("c17", variant="noalloc")],
        "thorough": [job("c17"), job("c17", variant="noalloc"), job("c17", profile="relwrap"), job("mirismoke", miri=True, shards=8, timeout=1800, args={"n": 30}), job("mirismoke", miri=True, variant="noalloc", shards=4, timeout=1800, args={"n": 30})],
        "floor": 100000,
    },
})

LEVELS = {p: "exploration" for p in ["C%02d" % i for i in range(1, 21)]}
LEVELS["C09"] = "fault_enumeration"
LEVELS["C14"] = "fault_enumeration"

RULES = {
    "C01": "seeded random operation histories (namespace heavy) over the volume configuration grid, executed against the real crate; every call judged against the reference tree, the raw image re-decoded and re-listed after every call. distinct = distinct (config class, op kind, result kind, reference-tree state hash) tuples",
    "C02": "seeded random file-I/O histories on 1-6 simultaneously open files; every read/write/seek/truncate judged against a byte-array+cursor model, raw content re-decoded after every call. distinct = distinct (config class, op kind, result kind, model state hash) tuples",
    "C03": "independent fsck (invariants I1-I12) of the raw image after every call of random and allocation-heavy histories. distinct = (config class, op kind, result kind, model state hash) tuples",
    "C04": "session view vs. second mount of a copy of the image at every call boundary vs. independent decode; device bytes at File::extents vs. content for every live handle after every call. distinct as C01",
    "C05": "stats() vs. raw FAT free count after every call once armed, FS-info after every unmount, out-of-space admissibility; tiny volumes driven to full. distinct as C01",
    "C10": "byte comparison of FAT copies, reserved entries, padding entries and FAT32 top nibbles between consecutive call boundaries. distinct as C01",
    "C11": "every device write of every call classified against the independent region/ownership map of the image before and after the call. distinct as C01",
    "C12": "status byte examined at every call boundary against a structural-change latch; copy of the image mounted at every boundary to read the dirty report. distinct as C01",
}

ASSUMPTIONS = {
    "*": [
        "verdict covers only the executions described in coverage; nothing is claimed for histories, inputs or configurations that were not executed",
        "the independent decoder (harness/src/fatck.rs) implements the FAT specification correctly; it shares no code with the crate",
        "generators respect the crate's documented preconditions (one File handle per file, no remove/rename of objects with live handles)",
    ],
}

LEVEL_TEXT = {
    "C01": "Exploration: reference-model monitor over ~10^6 executed API calls per quick run (random histories over the configuration grid, several live handles); every call's result kind and the resulting tree are judged. Right level because the property quantifies over histories x configurations, which can only be sampled; bounded-exhaustive enumeration of short histories is added in the thorough tier.",
    "C02": "Exploration: byte-array+cursor model monitor on every read/write/seek/truncate of random interleavings over 1-6 open files plus an executed boundary grid around cluster multiples for every cluster size class.",
    "C03": "Exploration: independent fsck of the raw image after every single call of random and fill-to-full histories, plus scripted histories in which two or three files grow alternately cluster by cluster (round link values, links across table sectors), are remounted, refilled and removed; invariant-at-quiescent-point monitor.",
    "C04": "Exploration: three-way comparison (session model, second mount of a copy, independent decode) at every call boundary, plus extents-vs-content for every live handle.",
    "C05": "Exploration: online conservation monitor (stats() == raw free count after every call, FS-info after every unmount, out-of-space admissibility) over allocation heavy histories on tiny and regular volumes, fill-to-full / delete-all cycles up to the largest FAT12 and FAT16 volumes the formatter accepts (cluster numbers right below the reserved table values); plus a fault variant: a write whose payload transfer fails once (with and without a successful retry) followed by close and remove must return every cluster.",
    "C10": "Exploration: byte-level comparison of FAT copies / reserved entries / padding / FAT32 top nibbles between consecutive call boundaries, on library-made and foreign volumes (1-3 copies, mirroring on/off), one session in six on a short-transfer device.",
    "C11": "Exploration: offline checker over the device write log of every call against the independent region/ownership map.",
    "C12": "Exploration: temporal monitor (structural-change latch vs. dirty bit) at every call boundary, with a copy of the image mounted at every boundary; mount-time status byte presets (0x01, 0x02, 0x03, 0x80, ...) with and without the extended boot signature, FAT[1] clean-shutdown / hard-error bits cleared; plus a fault variant (one-shot write fault at every device write of scripted histories, retried).",
}
LEVEL_TEXT.update({
    "C06": "Exploration with an exhaustively executed sub-space: real format_volume runs over an option grid and size thresholds are validated by the independent decoder and by mounting; the boot-sector hook sweeps sector counts (quick: windows around every threshold, a stride over 2^32 and the first 300000 sizes; thorough: every one of the 2^32 sizes for default options). Checked (overflow checks on) and release-like (wrapping) profiles.",
    "C07": "Exploration with exhaustively executed sub-spaces: every value of every 8- and 16-bit BPB field on four valid base images, 32-bit fields at boundary values, random multi-field combinations, FS-info contents and random sectors, small values under every pattern of the four top bits in the 32-bit fields, FS-info / backup pointers swept with the expected sector planted at the target (so that the range check decides, not the signature check); panics/budget overruns captured, accepted volumes compared with an independent 128-bit parse. Two build profiles.",
    "C15": "Exploration with an exhaustively executed sub-space: every BMP scalar value in three positions, every length 0..300 for five unit patterns, dots/spaces, case-mapping characters and random names, each driven through create/lookup-matrix/rename/remove in its own monitored session (every length also into a directory prepared with released slot runs of 1..5 slots in front of live long names; one session in four on a short-transfer device) (reference tree + raw decode + byte-level no-side-effect check).",
    "C17": "Exploration with an exhaustively executed sub-space: all order/checksum/fill patterns for runs of up to 3 long-name slots x 5 followers, every value of every byte of a 3-slot base run, maximal/over-long runs, runs of every length 1..20 with released (0xE5) long-name slots, complete runs followed by a stray slot with every order byte, orphan starts, short names whose bytes form multi-byte UTF-8 sequences at every position, random slot soup; a logger that renders every warn!/error! record is installed; fixed-root and cluster-chain directories; dynamic and fixed-buffer builds. Oracle: independent LFN state machine + panic/budget capture.",
})
LEVEL_TEXT.update({
    "C16": "Exploration: collision-engineered directory populations (same 6-character prefix, same prefix+extension+16-bit name hash found by brute force, alias look-alikes, names with ~N inside, name hashes 0xFFFD..0xFFFF and 0 that force the retry to wrap, every ASCII punctuation character in the alias-relevant positions, dots/spaces/empty bases, non-ASCII, deletions and renames in between) created under the session monitors: raw short-name legality, duplicate short names (I8), checksum link (I7), device-call budget for termination.",
    "C18": "Exploration with an exhaustively executed domain: every (year, month, day) accepted by Date::new and every (hour, minute, second, 10 ms step) (+9 ms offsets) is set on a file, flushed, re-listed and compared with the specification's bit layout in the raw entry; stamping rules are monitored on random histories under a deterministic, logging time provider (access-date option on and off).",
})
LEVEL_TEXT.update({
    "C09": "Fault enumeration: for 44 representative operations on four volume geometries (FAT12/16/32) every device-call index k of the operation is failed once (exhaustive single-fault enumeration; thorough adds per-kind enumeration), under the default mount options and under strict(false) / update_accessed_date(true) mounts (mount, unmount and drop under all four combinations; the others under the default and one rotating alternative in the quick tier, all four in the thorough tier), the result of the public call is compared with the injected error code, destructor-issued calls are exempted through the drop-depth hook, a device-call budget of 20x the fault-free count detects non-termination, destructors after the failed call run under the same budget.",
    "C14": "Fault enumeration over crash points: random histories are journaled (every device write with payload, every device flush); for every call the image is rebuilt after each of its device writes (strided above 96 writes per call) and every file that was durable before the call and is not touched by it must read back exactly through a fresh mount; at every flush/drop of a file handle no device write may be younger than the last device flush.",
})
LEVEL_TEXT.update({
    "C08": "Exploration: a randomized, spec-driven builder (FAT width, sector/cluster size, 1-3 FATs, mirroring off with any active copy, stale inactive copies, large reserved areas, FS-info/backup placement, fragmented and backwards chains, every EOC marker, FAT32 high nibbles, bad clusters, deleted and orphaned slots, SFN-only entries with NT flags / 0x05 / OEM bytes, labels anywhere, all attribute bits, exactly-full directories, random timestamps) produces volumes with known ground truth; every volume is read completely through the crate and compared, then walked randomly (seeks, empty / short / boundary reads, extents; one volume in four on a short-transfer device) and hit with a few mutations under the session monitors (fsck with residue tolerance, write classifier, FAT copy rules, raw-entry preservation); cross-validated against the independent decoder and two Linux-made images.",
    "C13": "Exploration: random read-only sessions (open/list/seek/read/extents/labels/flags/statistics, drop/unmount/abandon) on builder-made and library-populated volumes of every width, clean or dirty at mount, with known/unknown FS-info counts, on a normal and on a write-refusing device; every device write is an alarm unless it is the documented FS-info exception.",
    "C19": "Exploration (differential): the same driver compiled with three feature sets replays identical seeded histories (every long-name length 1..255, random sessions, foreign images, random directory slot streams); final image SHA-256 and observation traces are compared pairwise offline (full vs no-alloc on everything; full vs no-unicode on ASCII, exact-case and slot-stream sets).",
})
LEVEL_TEXT.update({
    "C20": "Exploration: sparse simulated devices from 4 GiB to 16 TiB (512-byte sectors up to 2^32-1 sectors, 4 KiB sectors up to the FAT32 cluster limit, a FAT with 2^28 entries) are laid down without zero-fill with the next-free hint at, before and past the last cluster, at the 4 GiB and 1 TiB marks, with the tail used or only the last cluster free, with the root directory in cluster 2, in the last and in the last-but-one cluster; a scripted and a random history run under the reference-model, fsck, extents, FAT-copy, write-classifier and beyond-the-end monitors, in checked and wrapping builds.",
})
LEVEL_NOTE = {
    "*": "Trusted base: the harness (device, independent decoder fatck, reference model) and rustc's dynamic checks (overflow checks, debug assertions, bounds checks are ON in the relcheck profile). Only executed histories are covered; see evidence coverage for what was observed.",
}
TECHNIQUE = {
    "C01": "runtime monitoring: reference-model (in-memory tree) oracle + independent raw decode after every call",
    "C02": "runtime monitoring: byte-array/cursor model oracle on every file call, raw re-read",
    "C03": "runtime monitoring: independent fsck invariants evaluated on the raw image after every call",
    "C04": "runtime monitoring: differential observation (session vs second mount vs independent decoder) at every boundary",
    "C05": "runtime monitoring: conservation monitor stats() vs raw FAT, FS-info checker",
    "C10": "runtime monitoring: raw FAT copy/reserved-bit comparator at every call boundary",
    "C11": "runtime monitoring: offline checker over the device write event log vs ownership map",
    "C12": "runtime monitoring: temporal monitor over the status byte at every call boundary",
}
TECHNIQUE.update({
    "C06": "runtime monitoring: independent validator of formatted images + executed sweep of the boot-sector hook",
    "C07": "runtime monitoring: panic/overflow capture + independent wide-integer BPB parse over executed field sweeps",
    "C15": "runtime monitoring: independent name predicate + reference tree + raw decode on per-name sessions",
    "C17": "runtime monitoring: panic/termination capture + independent LFN state machine on crafted slot streams",
})
RULES.update({
    "C06": "format requests = option grid (sector size, cluster size, FAT count, root entries, forced type, label, id, media) x sizes at every heuristic/type threshold +-{0,1,2,31,64,129} and random; hook sweep over sector counts. distinct = distinct (option class, result kind, FAT width, cluster size, sectors per FAT) tuples",
    "C07": "mutations of valid boot sectors / FS-info sectors. distinct = distinct (base image, mutated field, result kind, accepted geometry, independent verdict class) tuples",
    "C15": "one monitored session per candidate name. distinct = distinct names (each a different point of the input domain); evaluations = names",
    "C17": "crafted 32-byte slot streams written into a fixed root or a cluster directory, iterated through the crate with every accessor. distinct = distinct (case family, directory kind, entry count, per-entry long/broken/soft pattern) tuples",
})
TECHNIQUE.update({
    "C16": "runtime monitoring: raw short-name legality/uniqueness/checksum invariants after every creation + call budget",
    "C18": "runtime monitoring: spec bit-layout decode of raw entries over the whole date/time domain + stamping-rule monitor with a logging clock",
})
RULES.update({
    "C16": "name families engineered to collide in alias generation, created (with deletions/renames) in one directory. evaluations = API calls; distinct = distinct (family, name) alias-generation problems posed",
    "C18": "domain sweep: evaluations = (date,time) values set+flushed+re-listed; distinct = distinct (date word, time word, tenths) triples stored; plus stamping-rule sessions",
})
TECHNIQUE.update({
    "C09": "runtime monitoring: single-fault injection at every device call index + result-kind oracle + call budget",
    "C14": "runtime monitoring: offline checker over the recorded device write/flush journal (crash-image reconstruction)",
})
RULES.update({
    "C09": "evaluations = (operation, geometry, k) runs in which the injected fault fired; distinct = distinct (geometry, scenario, k, kind mask) tuples; all k in 1..N are executed for every scenario",
    "C14": "evaluations = crash images rebuilt and remounted; distinct = distinct (call kind, write index within the call, protected file length) tuples",
})
TECHNIQUE.update({
    "C08": "runtime monitoring: ground-truth comparison against a spec-driven image builder + session monitors on mutations of foreign images",
    "C13": "runtime monitoring: device write counter / write log over read-only sessions",
    "C19": "runtime monitoring: offline comparison of recorded observation traces and image hashes of one driver built three ways",
})
RULES.update({
    "C08": "evaluations = images built + entries compared + API calls of the mutation sessions; distinct = distinct (geometry class, status byte, FS-info mode, encoding switches, entry count) tuples plus session tuples",
    "C13": "evaluations = API calls of read-only sessions; distinct = distinct (volume origin/width/device kind/trust class, op kind, result kind, tree state) tuples",
    "C19": "evaluations = API calls replayed per build; distinct = distinct cases (kind, id) whose traces and image hashes were compared",
})
TECHNIQUE.update({
    "C20": "runtime monitoring: device offsets / extents vs independent 64/128-bit geometry on sparse devices, beyond-the-end access log",
})
RULES.update({
    "C20": "evaluations = API calls on large sparse volumes; distinct = distinct (volume layout, op kind, result kind, tree state) tuples; every geometry x hint placement of the spec list is executed",
})
DESIGN_REF = {}
NOT_APPLICABLE = []


RULES.update({
    "C01": RULES["C01"] + "; plus c01enum: all three-operation sequences over a 118-op alphabet from an empty volume (exhaustive in the thorough tier, strided in quick); fill workloads on tiny fixed roots / tiny volumes; iterwalk: a directory iterator kept open while entries are created, removed and renamed around its position (termination, no panic, untouched entries shown exactly once, nothing shown that never existed)",
    "C02": RULES["C02"] + "; plus c02grid (initial size x seek target x seek form x op x buffer length over {0,1,cs-1,cs,cs+1,2cs-1,2cs,2cs+1,3cs-1,3cs,3cs+1,size-1,size,size+1} for five cluster sizes x three FAT widths, each as its own history) and the std::io face (write_all/read_exact/read_to_end/seek on StdIoWrapper<Cursor>)",
    "C05": RULES["C05"] + "; plus c05cycle: 8 (quick) / 30 (thorough) fill-to-full / delete-all cycles on 60 volume x directory x stats-order combinations: bytes written per cycle and free count after delete-all must repeat",
    "C09": RULES["C09"] + "; plus random histories with one fault at a random device call of a random operation (reference model up to the fault) and a failing std::io storage behind StdIoWrapper",
    "C12": RULES["C12"] + "; plus c12fault: every device-write index of scripted histories fails once, the session carries on, raw image vs mount-time image at every boundary",
    "C14": RULES["C14"] + "; plus c14fault: a flush whose k-th device write/seek/flush fails and that succeeds when retried must be durable (remount of the image at that point)",
})

# finite sub-spaces that a run enumerates completely (reported in the evidence, the verdict stays 'held on what was executed')
EXHAUSTIVE = {
    "C06": "thorough: every total-sector count in [0, 2^32) with default options through the boot-sector hook; quick: the first 300000 sizes and +-4096 around every threshold",
    "C07": "every value of every 8-bit and 16-bit BPB field on the fat12/fat16/fat32 bases (fat16-4k base strided in quick)",
    "C09": "every device-call index k of every scenario x geometry (single-fault enumeration)",
    "C15": "every BMP scalar value in three positions; every length 0..300 for five unit patterns",
    "C17": "all order/checksum/fill patterns for runs of up to three long-name slots x five followers; every value of every byte of a 3-slot base run; every order byte for a stray slot behind a complete run",
    "C18": "every (year, month, day) accepted by Date::new and every (hour, minute, second, 10 ms step)",
    "C01": "thorough: all 118^3 three-operation sequences on FAT12, FAT16 and FAT32",
}

LEVEL_TEXT["C01"] += " Bounded-exhaustive part (c01enum): every sequence of three operations over a 118-op alphabet from an empty volume, exhaustive in the thorough tier. Fill workloads drive tiny fixed roots and tiny volumes to full."
LEVEL_TEXT["C02"] += " Also through the std::io face of File (write_all / read_exact / read_to_end / seek) on StdIoWrapper<Cursor<Vec<u8>>>."
LEVEL_TEXT["C05"] += " Conservation part (c05cycle): repeated fill-to-full / delete-all cycles must write the same number of bytes every cycle and return to the same free count."
LEVEL_TEXT["C09"] += " Also: random histories with one fault at a random device call (reference model up to the fault), and a failing std::io storage behind StdIoWrapper (the storage's own std::io::Error must come back)."
LEVEL_TEXT["C12"] += " Fault variant (c12fault): every device-write index of scripted histories fails once and the session carries on; the raw image is compared with the mount-time image at every boundary."
LEVEL_TEXT["C14"] += " Fault variant (c14fault): a flush that fails once at any device call and succeeds when retried must leave the file durable."
