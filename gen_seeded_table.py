#!/usr/bin/env python3
"""Regenerates the table of DESIGN.md section 9.5 from seeded/*/meta.json (rows only; the prose around it is hand-written)."""
import json, glob, os, re
rows = []
for d in sorted(glob.glob("/verif/seeded/*")):
    m = json.load(open(os.path.join(d, "meta.json")))
    needs = " ".join(str(m.get("needs", "")).split())
    if len(needs) > 330:
        needs = needs[:330] + "..."
    res = " ".join(m["confirmed"]["result"].split())
    rows.append("| `%s` | %s | %s |" % (os.path.basename(d), needs.replace("|", "/"), res.replace("|", "/")))
s = open("/verif/DESIGN.md").read()
head = "| seeded change (`seeded/<id>/`) | needs | result |\n|---|---|---|\n"
a = s.index(head) + len(head)
b = s.index("\nWhat the misses taught", a)
s = s[:a] + "\n".join(rows) + "\n" + s[b:]
open("/verif/DESIGN.md", "w").write(s)
print(len(rows), "rows")
