#!/usr/bin/env python3
"""Regenerates MANIFEST.json from plans.py (single source of truth for what is registered)."""
import json, os, subprocess, sys
HERE = os.path.dirname(os.path.abspath(__file__))
sys.path.insert(0, HERE)
from plans import PLANS, LEVELS, LEVEL_TEXT, LEVEL_NOTE, TECHNIQUE, DESIGN_REF, NOT_APPLICABLE

def repo_commits():
    out = subprocess.run(["git", "-C", "/repo", "log", "--format=%H %s"], stdout=subprocess.PIPE, text=True).stdout
    return [l.split()[0] for l in out.splitlines() if "verif_hooks" in l]

checks = []
for p in sorted(PLANS):
    checks.append({
        "property_id": p,
        "quick_cmd": "./verif.py check %s --tier quick" % p,
        "thorough_cmd": "./verif.py check %s --tier thorough" % p,
        "evidence_file": "/verif/evidence/%s.json" % p,
        "replay_cmd_template": "./verif.py replay {path}",
        "engine": "fatfs-mon",
        "level_claimed": {"category": LEVELS[p], "text": LEVEL_TEXT[p], "design_ref": DESIGN_REF.get(p, "DESIGN.md section 3, " + p)},
        "level_note": LEVEL_NOTE.get(p, LEVEL_NOTE["*"]),
        "technique": TECHNIQUE[p],
    })
m = {
    "version": 1,
    "setup_cmd": "./verif.py setup",
    "hooks": {
        "guard": "verif_hooks",
        "enable": "cargo feature `verif_hooks` of the fatfs crate, switched on by every variant feature (v_full, v_noalloc, v_nouni) of /verif/harness/Cargo.toml",
        "baseline_off_cmd": "./verif.py baseline",
        "source_commits": repo_commits(),
        "add_only": True,
    },
    "engines": [{
        "name": "fatfs-mon",
        "path": "/verif/harness",
        "serves_properties": sorted(PLANS),
        "kind_free_text": "std-only Rust harness: instrumented block device (event log, fault plan, call budget), independent FAT decoder/fsck, reference models, per-property monitors; driven by /verif/verif.py (build variants, sharding, known-findings filter, evidence)",
    }],
    "checks": checks,
    "not_applicable": NOT_APPLICABLE,
    "notes": "Runtime monitoring only: every verdict is 'held on the executions listed in the evidence file'. VERIF_SEED moves the random parts; enumerated sub-spaces are seed independent. Exit 2 = inconclusive (observed less than the floor).",
}
json.dump(m, open(os.path.join(HERE, "MANIFEST.json"), "w"), indent=1)
print("MANIFEST.json written with %d checks, %d not_applicable" % (len(checks), len(NOT_APPLICABLE)))
