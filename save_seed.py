#!/usr/bin/env python3
"""save_seed.py <worktree> <seed-id> <caught-by comma list> <note>  - copies a confirmed seeded change into /verif/seeded/<id>/"""
import sys, os, json, shutil
wt, sid, caught, note = sys.argv[1:5]
d = os.path.join("/verif/seeded", sid)
os.makedirs(d, exist_ok=True)
for f in ("patch.diff", "demo.rs"):
    shutil.copy(os.path.join(wt, "seeded_out", f), os.path.join(d, f))
meta = json.load(open(os.path.join(wt, "seeded_out", "meta.json")))
meta["confirmed"] = {
    "by": "seedcheck.sh in a scratch worktree: demo passes clean / fails patched; 71 passing tests unchanged with the patch; builds with std,lfn,unicode and std,alloc,lfn",
    "checks_run_against_patched_tree": caught.split(","),
    "result": note,
}
json.dump(meta, open(os.path.join(d, "meta.json"), "w"), indent=1)
print("saved", d)
