#!/bin/bash
# usage: seedcheck.sh <PROP> <worktree> [check ids...]
# Confirms a seeded change (worktree/seeded_out) and runs the given checks (default: PROP) against the patched worktree.
set -u
P=$1; WT=$2; shift 2; CHECKS=${@:-$P}
export CARGO_NET_OFFLINE=true
cd $WT || exit 9
git checkout -q -- src; rm -f tests/demo.rs
echo "== clean: demo must pass"
cp seeded_out/demo.rs tests/demo.rs
cargo test --offline --test demo 2>&1 | grep -E "^test result|^test .*FAILED|error(\[|:)" | head -5
echo "== patched: demo must fail, suite unchanged"
git apply seeded_out/patch.diff || { echo "PATCH DOES NOT APPLY"; exit 8; }
cargo test --offline --test demo 2>&1 | grep -E "^test result|^test .*FAILED|error(\[|:)" | head -8
rm -f tests/demo.rs
cargo test --offline --no-fail-fast 2>&1 | grep -E "^test .*\.\.\. ok" | sort > /tmp/seed-$P-after.txt
echo "passing tests with patch: $(wc -l < /tmp/seed-$P-after.txt)"
for v in "std,lfn,unicode" "std,alloc,lfn"; do cargo build --offline --no-default-features --features $v 2>&1 | grep -E "^error" | head -3; done
echo "== my checks against the patched worktree"
for c in $CHECKS; do
  VERIF_REPO=$WT VERIF_TARGET=/tmp/seedtarget-$P VERIF_EVID=/tmp/seedtarget-$P/evid VERIF_REPLAYS=/tmp/seedtarget-$P/replays /verif/verif.py check $c 2>&1 | grep -a -vE "^\[build|^   minimised" | cut -c1-400 | head -12
done
git checkout -q -- src
