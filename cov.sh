#!/bin/bash
# Informational reach meter (DESIGN 2.8): line coverage of /repo/src under the quick workloads. Not a verdict.
set -e
T=/verif/target/cov
BIN=$HOME/.rustup/toolchains/nightly-x86_64-unknown-linux-gnu/lib/rustlib/x86_64-unknown-linux-gnu/bin
cd /verif/harness
CARGO_NET_OFFLINE=true RUSTFLAGS="-Cinstrument-coverage" cargo +nightly build --offline --profile relcheck --no-default-features --features v_full --target-dir $T 2>&1 | tail -1
rm -f $T/*.profraw
M=$T/relcheck/fatfs-mon
run() { LLVM_PROFILE_FILE="$T/%p-%m.profraw" "$@" --out /dev/null >/dev/null 2>&1 || true; }
for p in tree file alloc remount rootfill dirfill; do run $M sess --seed 1 --sessions 60 --profile $p --shadow 1 --short 1 --statusbits 1; done
run $M sess --seed 2 --sessions 40 --profile mixed --builder 1 --atime 1 --nolibwalk 1
for m in c01enum c02grid c05cycle c06 c07 c08 c09 c13 c14 c14fault c12fault c05fault iterwalk c15 c16 c17 c18 c19 c20; do run $M $m --seed 1 --shard 3/64; done
$BIN/llvm-profdata merge -sparse $T/*.profraw -o $T/all.profdata
$BIN/llvm-cov report $M -instr-profile=$T/all.profdata /repo/src 2>/dev/null | grep -E "repo/src|TOTAL|Filename" | cut -c1-200
$BIN/llvm-cov show $M -instr-profile=$T/all.profdata /repo/src --show-line-counts-or-regions=false 2>/dev/null > $T/show.txt
echo "uncovered lines listing: $T/show.txt"
