#!/bin/bash
# usage: recheck_seed.sh <seed-id> [check ids...]   - re-runs checks against an archived seeded change in a scratch worktree
set -u
ID=$1; shift
WT=/tmp/recheck-$ID
P=$(python3 -c "import json;print(json.load(open('/verif/seeded/$ID/meta.json'))['property'])")
CHECKS=${@:-$P}
git -C /repo worktree add --detach $WT HEAD >/dev/null 2>&1 || exit 9
git -C $WT apply /verif/seeded/$ID/patch.diff || { echo "PATCH DOES NOT APPLY: $ID"; git -C /repo worktree remove --force $WT; exit 8; }
for c in $CHECKS; do
  VERIF_REPO=$WT VERIF_TARGET=/tmp/recheck-target-$ID VERIF_EVID=/tmp/recheck-target-$ID/evid VERIF_REPLAYS=/tmp/recheck-target-$ID/replays /verif/verif.py check $c 2>&1 | grep -a -E "\] (held|violated|inconclusive)|BUILD FAILED" | sed "s/^/$ID: /"
done
git -C /repo worktree remove --force $WT; rm -rf /tmp/recheck-target-$ID
