#!/usr/bin/env python3
"""Runner for the rust-fatfs runtime monitors (see DESIGN.md).

  ./verif.py setup                      build every harness variant from /repo's current tree
  ./verif.py check <ID> [--tier quick|thorough]
  ./verif.py replay <replay.json>
  ./verif.py baseline                   repository test-suite with the hook guard OFF vs BASELINE.json
  ./verif.py all [--tier ..]            every registered check, sequentially
"""
import json, os, subprocess, sys, time, shutil, hashlib, struct, glob, re
from concurrent.futures import ThreadPoolExecutor

HERE = os.path.dirname(os.path.abspath(__file__))
REPO = os.environ.get("VERIF_REPO", "/repo")
TARGET = os.environ.get("VERIF_TARGET", os.path.join(HERE, "target"))
HARNESS = os.path.join(HERE, "harness")
EVID = os.environ.get("VERIF_EVID", os.path.join(HERE, "evidence"))
REPLAYS = os.environ.get("VERIF_REPLAYS", os.path.join(HERE, "replays"))
SCRATCH = os.path.join(TARGET, "scratch")
NCPU = int(os.environ.get("VERIF_JOBS", str(os.cpu_count() or 8)))
ENV = dict(os.environ, CARGO_NET_OFFLINE="true", RUST_BACKTRACE="0")

sys.path.insert(0, HERE)
from plans import PLANS, LEVELS, RULES, ASSUMPTIONS, EXHAUSTIVE  # noqa: E402


def log(*a):
    print(*a, flush=True)


# ------------------------------------------------------------------------------------------- build

def harness_dir():
    """The harness crate has a path dependency on /repo. For another repo path (self-tests on scratch
    worktrees) a rendered copy of the crate is used."""
    if REPO == "/repo":
        return HARNESS
    d = os.path.join(TARGET, "harness-" + hashlib.sha1(REPO.encode()).hexdigest()[:10])
    if os.path.exists(d):
        shutil.rmtree(d)
    shutil.copytree(HARNESS, d, ignore=shutil.ignore_patterns("target"))
    p = os.path.join(d, "Cargo.toml")
    s = open(p).read().replace('path = "/repo"', 'path = "%s"' % REPO)
    open(p, "w").write(s)
    return d


_built = {}


def build(variant, profile):
    key = (variant, profile)
    if key in _built:
        return _built[key]
    hd = harness_dir()
    lock = os.path.join(hd, "Cargo.lock")
    if not os.path.exists(lock):
        shutil.copy(os.path.join(REPO, "Cargo.lock"), lock)
    tdir = os.path.join(TARGET, variant)
    cmd = ["cargo", "build", "--offline", "--profile", profile, "--no-default-features", "--features", "v_" + variant,
           "--target-dir", tdir, "--manifest-path", os.path.join(hd, "Cargo.toml")]
    t0 = time.time()
    r = subprocess.run(cmd, env=ENV, stdout=subprocess.PIPE, stderr=subprocess.STDOUT, text=True)
    if r.returncode != 0:
        log(r.stdout[-6000:])
        log("BUILD FAILED: %s/%s" % (variant, profile))
        sys.exit(3)
    binp = os.path.join(tdir, profile, "fatfs-mon")
    _built[key] = binp
    log("[build] %s/%s ok (%.1fs)" % (variant, profile, time.time() - t0))
    return binp


ALL_BUILDS = [("full", "relcheck"), ("full", "relwrap"), ("noalloc", "relcheck"), ("nouni", "relcheck")]


def setup():
    for v, p in ALL_BUILDS:
        build(v, p)
    return 0


# ------------------------------------------------------------------------------------------- jobs

def run_job(job, seed, tier, outdir, idx):
    """job: dict(variant, profile, mode, args: dict, shards: int, timeout: s). Returns list of shard results."""
    interp = job.get("miri", False)
    binp = None if interp else build(job.get("variant", "full"), job.get("profile", "relcheck"))
    shards = job.get("shards", NCPU)
    results = []
    env = dict(ENV)
    if interp:
        # undefined-behaviour interpreter: the same harness crate, run by `cargo +nightly miri run`
        env["MIRIFLAGS"] = "-Zmiri-disable-isolation"
        prefix = ["cargo", "+nightly", "miri", "run", "--offline", "--no-default-features", "--features", "v_" + job.get("variant", "full"),
                  "--target-dir", os.path.join(TARGET, "interp"), "--manifest-path", os.path.join(harness_dir(), "Cargo.toml"), "--"]
    else:
        prefix = [binp]

    def one(i):
        out = os.path.join(outdir, "job%d-%d.json" % (idx, i))
        dout = os.path.join(outdir, "job%d-%d.distinct" % (idx, i))
        argv = prefix + [job["mode"], "--seed", str(seed + (i if interp else 0)), "--shard", "%d/%d" % (i, shards), "--tier", tier, "--out", out, "--distinct-out", dout]
        for k, v in job.get("args", {}).items():
            argv += ["--" + k, str(v)]
        if job.get("trace"):
            argv += ["--trace-out", os.path.join(outdir, "trace-%s-%d-%d.txt" % (job.get("variant", "full"), idx, i))]
        t0 = time.time()
        attempt = 0
        while True:
            attempt += 1
            try:
                r = subprocess.run(argv, env=env, stdout=subprocess.PIPE, stderr=subprocess.PIPE, text=True, timeout=job.get("timeout", 900))
                rc, err = r.returncode, r.stderr[-3000:]
            except subprocess.TimeoutExpired:
                return {"status": "timeout", "argv": argv, "wall": time.time() - t0}
            if rc == 0 and os.path.exists(out):
                try:
                    res = json.load(open(out))
                except Exception as e:  # noqa
                    return {"status": "badjson", "argv": argv, "err": str(e)}
                res["status"] = "ok"
                res["argv"] = argv
                res["distinct_file"] = dout
                return res
            if attempt >= 2:
                return {"status": "crash", "argv": argv, "rc": rc, "err": err, "wall": time.time() - t0}

    with ThreadPoolExecutor(max_workers=NCPU) as ex:
        results = list(ex.map(one, range(shards)))
    return results


def load_known():
    p = os.path.join(HERE, "known_findings.json")
    if not os.path.exists(p):
        return {"findings": [], "fixed": []}
    return json.load(open(p))


def sig_matches(pattern, sig):
    if pattern.endswith("*"):
        return sig.startswith(pattern[:-1])
    return pattern == sig


def check(prop, tier, seed):
    if prop not in PLANS:
        log("no check registered for", prop)
        return 2
    t0 = time.time()
    os.makedirs(EVID, exist_ok=True)
    os.makedirs(REPLAYS, exist_ok=True)
    outdir = os.path.join(SCRATCH, "%s-%s-%d" % (prop, tier, os.getpid()))
    if os.path.exists(outdir):
        shutil.rmtree(outdir)
    os.makedirs(outdir)
    plan = PLANS[prop][tier] if tier in PLANS[prop] else PLANS[prop]["quick"]
    # build everything first (from /repo's current tree)
    for job in plan:
        if not job.get("miri"):
            build(job.get("variant", "full"), job.get("profile", "relcheck"))
    known = load_known()
    # witnesses of known findings are re-executed on every run
    jobs = list(plan)
    for f in known["findings"]:
        if f["property"] == prop and f.get("status", "open") == "open" and f.get("witness_job"):
            wj = dict(f["witness_job"])
            wj["shards"] = 1
            wj["_witness_of"] = f["signature"]
            jobs.append(wj)
    evaluations = 0
    distinct = set()
    samples = []
    counters = {}
    violations = []
    inconclusive = []
    notes = []
    extra = {}
    per_job = []
    for idx, job in enumerate(jobs):
        res = run_job(job, seed, tier, outdir, idx)
        jev = 0
        for r in res:
            if r["status"] != "ok":
                if r["status"] == "crash":
                    violations.append({"property": prop, "sig": "%s|harness-crash|%s" % (prop, job["mode"]), "rule": "crash",
                                       "detail": "monitor process died twice (rc %s): %s" % (r.get("rc"), r.get("err", "")[-800:]),
                                       "replay": {"argv": r["argv"][1:-4]}})
                else:
                    inconclusive.append("%s shard: %s" % (job["mode"], r["status"]))
                continue
            if job.get("_witness_of"):
                # witness runs only contribute their violations
                for v in r.get("violations", []):
                    v["_from_witness"] = True
                    violations.append(v)
                continue
            evaluations += r.get("evaluations", 0)
            jev += r.get("evaluations", 0)
            try:
                b = open(r["distinct_file"], "rb").read()
                distinct.update(struct.unpack("<%dQ" % (len(b) // 8), b))
            except Exception:
                pass
            for s in r.get("samples", []):
                if len(samples) < 8:
                    samples.append(s)
            for k, v in r.get("counters", {}).items():
                counters[k] = counters.get(k, 0) + v
            for v in r.get("violations", []):
                violations.append(v)
            inconclusive += r.get("inconclusive", [])
            notes += r.get("notes", [])[:3]
            for k in r:
                if k not in ("mode", "evaluations", "distinct", "violations", "samples", "counters", "notes", "inconclusive", "wall_s", "status", "argv", "distinct_file"):
                    extra.setdefault(k, r[k])
        if not job.get("_witness_of"):
            per_job.append({"mode": job["mode"], "variant": job.get("variant", "full"), "profile": job.get("profile", "relcheck"), "args": job.get("args", {}), "evaluations": jev})
    post = PLANS[prop].get("post")
    if post == "c19":
        violations += c19_compare(outdir, jobs, counters)
    # classify violations
    mine, foreign = [], []
    for v in violations:
        (mine if v["property"] == prop else foreign).append(v)
    new, known_hits = [], {}
    for v in mine:
        hit = None
        for f in known["findings"]:
            if f["property"] == prop and f.get("status", "open") == "open" and sig_matches(f["signature"], v["sig"]):
                hit = f
                break
        if hit:
            known_hits.setdefault(hit["signature"], (hit, v))
        else:
            new.append(v)
    seen = set()
    rc = 0
    for f, v in known_hits.values():
        log("KNOWN-FINDING: property=%s %s [%s]" % (prop, f["what"], f["signature"]))
    uniq_new = []
    for v in new:
        if v["sig"] in seen:
            continue
        seen.add(v["sig"])
        uniq_new.append(v)
    for v in uniq_new:
        name = "%s-%s.json" % (prop, hashlib.sha1(v["sig"].encode()).hexdigest()[:10])
        path = os.path.join(REPLAYS, name)
        rec = dict(v)
        rec["seed"] = seed
        rec["tier"] = tier
        json.dump(rec, open(path, "w"), indent=1)
        log("VIOLATION property=%s replay=%s" % (prop, path))
        log("   rule: %s" % v["sig"])
        log("   %s" % v["detail"][:1500])
        if isinstance(v.get("replay"), dict) and v["replay"].get("minimised_ops"):
            log("   minimised history: %s" % json.dumps(v["replay"]["minimised_ops"])[:1500])
        rc = 1
    floor = PLANS[prop].get("floor", 1)
    if evaluations < floor and rc == 0:
        inconclusive.append("only %d evaluations observed (floor %d)" % (evaluations, floor))
    wall = time.time() - t0
    level = LEVELS.get(prop, "exploration")
    outcome_matrix = {k[8:]: v for k, v in counters.items() if k.startswith("outcome:")}
    cov = {
        "evaluations": int(evaluations),
        "distinct_nontrivial": len(distinct),
        "rule": RULES.get(prop, ""),
        "samples": samples[:6] if samples else ["(no sample recorded)"],
        "monitor_counters": {k: v for k, v in counters.items() if not k.startswith("outcome:")},
        "jobs": per_job,
        "known_findings_observed": [f["signature"] for f, _ in known_hits.values()],
        "foreign_property_alarms": sorted(set(v["sig"] for v in foreign))[:20],
        "inconclusive": inconclusive[:20],
        "notes": notes[:10],
    }
    if outcome_matrix:
        cov["op_outcome_matrix"] = outcome_matrix
    if prop in EXHAUSTIVE:
        cov["exhaustively_enumerated_subspaces"] = EXHAUSTIVE[prop]
    cov.update(extra)
    ev = {
        "property_id": prop,
        "tier": tier,
        "seed": int(seed),
        "level": level,
        "coverage": cov,
        "assumptions": ASSUMPTIONS.get(prop, []) + ASSUMPTIONS.get("*", []),
        "wall_s": round(wall, 2),
        "violations": len(uniq_new),
    }
    json.dump(ev, open(os.path.join(EVID, "%s.json" % prop), "w"), indent=1)
    shutil.rmtree(outdir, ignore_errors=True)
    verdict = "violated" if rc == 1 else ("inconclusive" if (evaluations < floor) else "held")
    log("[%s %s seed=%d] %s: %d evaluations, %d distinct, %d known finding(s), %d new violation(s), %.1fs%s" % (
        prop, tier, seed, verdict, evaluations, len(distinct), len(known_hits), len(uniq_new), wall,
        (" inconclusive: %s" % inconclusive[:3]) if inconclusive else ""))
    if rc == 0 and evaluations < floor:
        return 2
    return rc


def parse_traces(path):
    cases = {}
    cur = None
    try:
        for line in open(path, encoding="utf-8", errors="replace"):
            line = line.rstrip("\n")
            if line.startswith("#CASE "):
                parts = line.split()
                cur = (parts[1], parts[2])
                cases[cur] = {"image": parts[3], "lines": []}
            elif cur is not None:
                cases[cur]["lines"].append(line)
    except FileNotFoundError:
        pass
    return cases


NOUNI_KINDS = {"namelen-ascii", "sess-ascii", "sess-exact", "foreign-read", "foreign-write", "slot-soup"}


def c19_compare(outdir, jobs, counters):
    """Pairwise comparison of the traces written by the same driver compiled under three feature sets."""
    by_variant = {}
    for idx, job in enumerate(jobs):
        if not job.get("trace"):
            continue
        v = job.get("variant", "full")
        for f in glob.glob(os.path.join(outdir, "trace-%s-%d-*.txt" % (v, idx))):
            by_variant.setdefault(v, {}).update(parse_traces(f))
    out = []
    full = by_variant.get("full", {})
    for other, kinds in (("noalloc", None), ("nouni", NOUNI_KINDS)):
        oth = by_variant.get(other, {})
        compared = 0
        for key, a in full.items():
            if kinds is not None and key[0] not in kinds:
                continue
            b = oth.get(key)
            if b is None:
                out.append({"property": "C19", "sig": "C19|%s|missing-case" % other, "rule": "missing-case",
                            "detail": "case %s %s produced by the full build is missing from the %s build's output" % (key[0], key[1], other), "replay": {"argv": ["c19"]}})
                break
            compared += 1
            if a["lines"] != b["lines"]:
                i = next((i for i, (x, y) in enumerate(zip(a["lines"], b["lines"])) if x != y), min(len(a["lines"]), len(b["lines"])))
                la = a["lines"][i] if i < len(a["lines"]) else "<end of trace>"
                lb = b["lines"][i] if i < len(b["lines"]) else "<end of trace>"
                out.append({"property": "C19", "sig": "C19|%s|trace|%s" % (other, key[0]), "rule": "trace-differs",
                            "detail": "case %s %s: observation %d differs between the full and the %s build:\n      full : %s\n      %s: %s" % (key[0], key[1], i, other, la[:600], other, lb[:600]),
                            "replay": {"argv": ["c19"], "case": list(key), "history": a["lines"][: i + 1][-12:]}})
            elif a["image"] != b["image"]:
                out.append({"property": "C19", "sig": "C19|%s|image|%s" % (other, key[0]), "rule": "image-differs",
                            "detail": "case %s %s: identical observations but the final images differ between the full and the %s build (%s vs %s)" % (key[0], key[1], other, a["image"], b["image"]),
                            "replay": {"argv": ["c19"], "case": list(key), "history": a["lines"][-12:]}})
        counters["cases_compared_full_vs_%s" % other] = compared
    return out


def replay(path):
    rec = json.load(open(path))
    rp = rec.get("replay", {})
    argv = rp.get("argv")
    if not argv:
        log("replay file has no argv")
        return 2
    if argv[0] == "c19":
        # differential property: the comparison itself lives in the runner
        return check("C19", rec.get("tier", "quick"), int(rec.get("seed", 1)))
    variant = rp.get("variant", "full")
    profile = rp.get("profile", "relcheck")
    binp = build(variant, profile)
    a = [x for x in argv]
    # drop shard/out options that were recorded
    r = subprocess.run([binp] + a + ["--seed", str(rec.get("seed", 1))] if "--seed" not in a else [binp] + a, env=ENV, stdout=subprocess.PIPE, text=True)
    try:
        res = json.loads(r.stdout)
    except Exception:
        log(r.stdout[-2000:])
        return 2
    hit = [v for v in res.get("violations", []) if v["sig"] == rec["sig"]]
    for v in res.get("violations", []):
        log("reproduced: %s\n   %s" % (v["sig"], v["detail"][:1200]))
    if hit:
        log("VIOLATION property=%s replay=%s" % (rec["property"], path))
        return 1
    log("not reproduced")
    return 0


def baseline():
    """Repository tests with the guard off; pass set must equal BASELINE.json's stable_pass."""
    base = json.load(open("/root/.vp/BASELINE.json"))
    want = set(base["stable_pass"])
    r = subprocess.run(["cargo", "test", "--workspace", "--no-fail-fast", "--offline"], cwd=REPO, env=ENV, stdout=subprocess.PIPE, stderr=subprocess.STDOUT, text=True)
    out = r.stdout
    passed, failed = set(), set()
    target = None
    for line in out.splitlines():
        m = re.match(r"\s+Running (unittests )?(\S+)", line)
        if m:
            p = m.group(2)
            if p.startswith("src/"):
                target = "fatfs"
            else:
                target = "fatfs::" + os.path.splitext(os.path.basename(p))[0]
            continue
        if re.match(r"\s+Doc-tests", line):
            target = None
        m = re.match(r"test (\S+)( - should panic)? \.\.\. (ok|FAILED|ignored)", line)
        if m and target:
            name = target + "::" + m.group(1) if target != "fatfs" else "fatfs::" + m.group(1)
            (passed if m.group(3) == "ok" else failed).add(name)
    missing = sorted(want - passed)
    log("baseline (guard off): %d passed, %d failed; %d of %d stable tests passing" % (len(passed), len(failed), len(want & passed), len(want)))
    if missing:
        log("MISSING:", missing[:20])
        return 1
    return 0


def main():
    a = sys.argv[1:]
    if not a:
        print(__doc__)
        return 2
    tier = os.environ.get("VERIF_TIER", "quick")
    if "--tier" in a:
        tier = a[a.index("--tier") + 1]
    seed = int(os.environ.get("VERIF_SEED", "1") or "1")
    if a[0] == "setup":
        return setup()
    if a[0] == "check":
        return check(a[1], tier, seed)
    if a[0] == "replay":
        return replay(a[1])
    if a[0] == "baseline":
        return baseline()
    if a[0] == "all":
        rc = 0
        for p in sorted(PLANS):
            rc = max(rc, check(p, tier, seed))
        return rc
    print(__doc__)
    return 2


if __name__ == "__main__":
    sys.exit(main())
