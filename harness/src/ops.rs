//! Operation values (explicit arguments => histories replay bit for bit and can be shrunk).
#![allow(dead_code)]

use crate::util::J;

#[derive(Clone, Debug, PartialEq, Eq)]
pub enum DirRef {
    Root,
    H(usize),
}

#[derive(Clone, Debug, PartialEq, Eq)]
pub enum Op {
    CreateFile { dir: DirRef, path: String, slot: Option<usize> },
    CreateDir { dir: DirRef, path: String, slot: Option<usize> },
    OpenFile { dir: DirRef, path: String, slot: Option<usize> },
    OpenDir { dir: DirRef, path: String, slot: Option<usize> },
    Remove { dir: DirRef, path: String },
    Rename { sdir: DirRef, src: String, ddir: DirRef, dst: String },
    List { dir: DirRef },
    Read { h: usize, len: usize },
    Write { h: usize, len: usize },
    /// whence: 0 start, 1 current, 2 end
    Seek { h: usize, whence: u8, off: i64 },
    Truncate { h: usize },
    /// enumerate File::extents() of an open file (non-mutating)
    Extents { h: usize },
    Flush { h: usize },
    Close { h: usize },
    /// which: 0 created, 1 modified, 2 accessed; raw (date word, time word, tenths)
    SetTimes { h: usize, which: u8, date: u16, time: u16, tenth: u8 },
    Stats,
    StatusFlags,
    Label,
    /// 0 = drop handles + unmount(), 1 = drop handles + drop fs, 2 = abandon (forget everything, remount)
    Remount { how: u8 },
}

fn dr(d: &DirRef) -> String {
    match d {
        DirRef::Root => "root".into(),
        DirRef::H(i) => format!("h{}", i),
    }
}

fn sl(s: &Option<usize>) -> String {
    match s {
        Some(i) => format!("->h{}", i),
        None => "->drop".into(),
    }
}

impl Op {
    pub fn kind(&self) -> &'static str {
        match self {
            Op::CreateFile { .. } => "create_file",
            Op::CreateDir { .. } => "create_dir",
            Op::OpenFile { .. } => "open_file",
            Op::OpenDir { .. } => "open_dir",
            Op::Remove { .. } => "remove",
            Op::Rename { .. } => "rename",
            Op::List { .. } => "list",
            Op::Read { .. } => "read",
            Op::Write { .. } => "write",
            Op::Seek { .. } => "seek",
            Op::Truncate { .. } => "truncate",
            Op::Extents { .. } => "extents",
            Op::Flush { .. } => "flush",
            Op::Close { .. } => "close",
            Op::SetTimes { .. } => "set_times",
            Op::Stats => "stats",
            Op::StatusFlags => "status_flags",
            Op::Label => "label",
            Op::Remount { .. } => "remount",
        }
    }
    pub fn show(&self) -> String {
        use crate::util::show_str as ss;
        match self {
            Op::CreateFile { dir, path, slot } => format!("{}.create_file(\"{}\"){}", dr(dir), ss(path), sl(slot)),
            Op::CreateDir { dir, path, slot } => format!("{}.create_dir(\"{}\"){}", dr(dir), ss(path), sl(slot)),
            Op::OpenFile { dir, path, slot } => format!("{}.open_file(\"{}\"){}", dr(dir), ss(path), sl(slot)),
            Op::OpenDir { dir, path, slot } => format!("{}.open_dir(\"{}\"){}", dr(dir), ss(path), sl(slot)),
            Op::Remove { dir, path } => format!("{}.remove(\"{}\")", dr(dir), ss(path)),
            Op::Rename { sdir, src, ddir, dst } => format!("{}.rename(\"{}\", {}, \"{}\")", dr(sdir), ss(src), dr(ddir), ss(dst)),
            Op::List { dir } => format!("{}.iter()", dr(dir)),
            Op::Read { h, len } => format!("h{}.read({})", h, len),
            Op::Write { h, len } => format!("h{}.write({})", h, len),
            Op::Seek { h, whence, off } => format!("h{}.seek({}({}))", h, ["Start", "Current", "End"][*whence as usize % 3], off),
            Op::Truncate { h } => format!("h{}.truncate()", h),
            Op::Extents { h } => format!("h{}.extents()", h),
            Op::Flush { h } => format!("h{}.flush()", h),
            Op::Close { h } => format!("drop(h{})", h),
            Op::SetTimes { h, which, date, time, tenth } => format!("h{}.set_{}({:#06x},{:#06x},{})", h, ["created", "modified", "accessed"][*which as usize % 3], date, time, tenth),
            Op::Stats => "fs.stats()".into(),
            Op::StatusFlags => "fs.read_status_flags()".into(),
            Op::Label => "fs.label queries".into(),
            Op::Remount { how } => format!("remount({})", ["unmount", "drop", "abandon"][*how as usize % 3]),
        }
    }
    pub fn mutating(&self) -> bool {
        matches!(
            self,
            Op::CreateFile { .. } | Op::CreateDir { .. } | Op::Remove { .. } | Op::Rename { .. } | Op::Write { .. } | Op::Truncate { .. } | Op::SetTimes { .. }
        )
    }
}

pub fn ops_json(ops: &[Op]) -> J {
    J::Arr(ops.iter().map(|o| J::Str(o.show())).collect())
}
