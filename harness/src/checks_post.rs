// included into checks.rs

fn legal_sfn_byte(b: u8) -> bool {
    matches!(b, b'A'..=b'Z' | b'0'..=b'9' | b'!' | b'#' | b'$' | b'%' | b'&' | b'\'' | b'(' | b')' | b'-' | b'@' | b'^' | b'_' | b'`' | b'{' | b'}' | b'~') || b >= 0x80
}

/// C16 legality of a generated 8.3 alias (raw 11 bytes). None = legal.
pub fn alias_problem(sfn: &[u8; 11]) -> Option<String> {
    let base = &sfn[..8];
    let ext = &sfn[8..];
    if base[0] == b' ' {
        return Some("empty or space-leading base".into());
    }
    for part in [base, ext] {
        let mut seen_pad = false;
        for b in part {
            if *b == b' ' {
                seen_pad = true;
            } else {
                if seen_pad {
                    return Some("embedded space".into());
                }
                if !legal_sfn_byte(*b) {
                    return Some(format!("illegal byte {:#04x}", b));
                }
            }
        }
    }
    None
}

struct Walk<'a> {
    op: &'a Op,
    baseline: bool,
    map: HashMap<usize, u32>,
    problem: Option<(&'static str, String, String)>,
    new_aliases: Vec<(usize, [u8; 11])>,
    stamps: Vec<(usize, Stamps)>,
    renames: Vec<(usize, String)>,
}

fn cmp_dir(s: &Sess, w: &mut Walk, dd: &DDir, mnode: usize, path: &str) {
    if w.problem.is_some() {
        return;
    }
    let mut dec: Vec<(&DNode, bool)> = dd.nodes.iter().filter(|n| matches!(n.kind, NodeKind::File { .. } | NodeKind::Dir(_))).map(|n| (n, false)).collect();
    let kids = s.model.nodes[mnode].children.clone();
    for k in kids {
        let mn = &s.model.nodes[k];
        let want = units(&mn.name);
        let mut hit = dec.iter().position(|(n, used)| !*used && n.e.display_units() == want);
        if hit.is_none() && matches!(w.op, Op::Rename { .. }) {
            let f = fatck::fold_units(&want, s.cfg.unicode);
            hit = dec.iter().position(|(n, used)| !*used && fatck::fold_units(&n.e.display_units(), s.cfg.unicode) == f);
            if let Some(i) = hit {
                w.renames.push((k, String::from_utf16_lossy(&dec[i].0.e.display_units())));
            }
        }
        let Some(i) = hit else {
            w.problem = Some(("tree-missing", "raw".into(), format!("{}{} exists in the reference tree but not in the raw image", path, crate::util::show_str(&mn.name))));
            return;
        };
        dec[i].1 = true;
        let dn = dec[i].0;
        w.map.insert(k, dn.id);
        if mn.alias != Some(dn.e.sfn) {
            w.new_aliases.push((k, dn.e.sfn));
        }
        w.stamps.push((k, stamps_of(dn)));
        match &dn.kind {
            NodeKind::Dir(sub) => {
                if !mn.is_dir {
                    w.problem = Some(("tree-kind", "raw".into(), format!("{}{} is a directory on disk, a file in the reference tree", path, crate::util::show_str(&mn.name))));
                    return;
                }
                let p = format!("{}{}/", path, mn.name);
                cmp_dir(s, w, sub, k, &p);
                if w.problem.is_some() {
                    return;
                }
            }
            NodeKind::File { content, .. } => {
                if mn.is_dir {
                    w.problem = Some(("tree-kind", "raw".into(), format!("{}{} is a file on disk, a directory in the reference tree", path, crate::util::show_str(&mn.name))));
                    return;
                }
                let c = content.as_deref().unwrap_or(&[]);
                if c != &mn.content[..] {
                    let i = c.iter().zip(mn.content.iter()).position(|(a, b)| a != b).unwrap_or(c.len().min(mn.content.len()));
                    w.problem = Some((
                        "content",
                        "raw".into(),
                        format!("{}{}: raw content ({} bytes) differs from the reference ({} bytes) at offset {}", path, crate::util::show_str(&mn.name), c.len(), mn.content.len(), i),
                    ));
                    return;
                }
            }
            _ => {}
        }
    }
    if let Some((n, _)) = dec.iter().find(|(_, used)| !*used) {
        w.problem = Some(("tree-ghost", "raw".into(), format!("{}{} exists in the raw image but not in the reference tree", path, crate::util::show_units(&n.e.display_units()))));
    }
}

/// Recursive listing + full read through fresh library handles, compared with the model.
fn lib_walk<'f>(s: &Sess, fs: &'f Fs, skip_live: bool) -> Option<(&'static str, String)> {
    fn walk<'f>(s: &Sess, dir: &crate::sess::FDir<'f>, mnode: usize, path: &str, skip_live: bool, depth: u32) -> Option<(&'static str, String)> {
        if depth > 40 {
            return Some(("lib-depth", format!("{}: directory nesting deeper than the reference tree allows", path)));
        }
        let mut got: Vec<(crate::sess::Listed, crate::sess::FEntry<'f>)> = Vec::new();
        for e in dir.iter() {
            match e {
                Ok(e) => {
                    let l = crate::sess::listed_of(&e);
                    if l.short == b"." || l.short == b".." {
                        continue;
                    }
                    got.push((l, e));
                }
                Err(e) => return Some(("lib-iter-error", format!("{}: Dir::iter failed with {:?}", path, e))),
            }
        }
        let kids = &s.model.nodes[mnode].children;
        let mut used = vec![false; got.len()];
        for k in kids {
            let mn = &s.model.nodes[*k];
            let want = units(&mn.name);
            let eq = |l: &crate::sess::Listed| crate::sess::name_matches(l, &want);
            let Some(i) = got.iter().enumerate().position(|(i, (l, _))| !used[i] && eq(l)) else {
                return Some(("lib-missing", format!("{}{} is not listed by the library", path, crate::util::show_str(&mn.name))));
            };
            used[i] = true;
            let (l, e) = &got[i];
            if l.is_dir != mn.is_dir {
                return Some(("lib-kind", format!("{}{} listed with is_dir={}", path, crate::util::show_str(&mn.name), l.is_dir)));
            }
            if mn.is_dir {
                let sub = e.to_dir();
                let p = format!("{}{}/", path, mn.name);
                if let Some(x) = walk(s, &sub, *k, &p, skip_live, depth + 1) {
                    return Some(x);
                }
            } else {
                let live = s.model.file_handle_on(*k).is_some();
                if live && skip_live {
                    continue;
                }
                if live && s.model.has_dirty_handle(*k) {
                    continue;
                }
                if live {
                    // clean live handle: size must agree, content is checked through raw decode
                    if l.len != mn.content.len() as u64 {
                        return Some(("lib-size", format!("{}{} listed with len {} (reference {})", path, crate::util::show_str(&mn.name), l.len, mn.content.len())));
                    }
                    continue;
                }
                if l.len != mn.content.len() as u64 {
                    return Some(("lib-size", format!("{}{} listed with len {} (reference {})", path, crate::util::show_str(&mn.name), l.len, mn.content.len())));
                }
                let mut f = e.to_file();
                let mut data = Vec::new();
                let mut buf = vec![0u8; 8192];
                loop {
                    match fatfs::Read::read(&mut f, &mut buf) {
                        Ok(0) => break,
                        Ok(n) => data.extend_from_slice(&buf[..n]),
                        Err(e) => return Some(("lib-read-error", format!("{}{}: read failed with {:?}", path, crate::util::show_str(&mn.name), e))),
                    }
                    if data.len() > mn.content.len() + 65536 {
                        break;
                    }
                }
                if data != mn.content {
                    let i = data.iter().zip(mn.content.iter()).position(|(a, b)| a != b).unwrap_or(data.len().min(mn.content.len()));
                    return Some(("lib-content", format!("{}{}: fresh handle reads {} bytes, reference {} bytes, first difference at {}", path, crate::util::show_str(&mn.name), data.len(), mn.content.len(), i)));
                }
            }
        }
        if let Some(i) = used.iter().position(|u| !*u) {
            return Some(("lib-ghost", format!("{}{} is listed by the library but not in the reference tree", path, crate::util::show_units(&got[i].0.name))));
        }
        None
    }
    let root = fs.root_dir();
    walk(s, &root, 0, "/", skip_live, 0)
}

fn fat_entry_span(g: &fatck::Geo, lo: u64, hi: u64) -> (u64, u64) {
    // entries possibly overlapping table bytes [lo,hi)
    match g.fat_bits {
        12 => ((lo * 2 / 3).saturating_sub(1), hi * 2 / 3 + 1),
        16 => (lo / 2, (hi + 1) / 2),
        _ => (lo / 4, (hi + 3) / 4),
    }
}

pub fn post_op<'f>(s: &mut Sess, fs: &'f Fs, hs: &mut [Option<H<'f>>], op: &Op, log: &[Ev], pre: Option<&Image>, baseline: bool) {
    let img = s.dev.snapshot();
    let tree_prop: &'static str = if baseline || !s.cfg.on("C01") { "C04" } else { "C01" };
    // ---- A: live handles: extents (C04) and deferred write-back overrides
    let mut opts = DecodeOpts {
        read_content: true,
        unicode_fold: s.cfg.unicode,
        ..Default::default()
    };
    let g0 = match fatck::geo_of(&img) {
        Ok(g) => g,
        Err(e) => {
            s.violate("C03", "geometry", op, "", format!("independent BPB parse failed after {}: {}", op.show(), e));
            return;
        }
    };
    for i in 0..hs.len() {
        let node = match &s.model.handles[i] {
            Some(MH::File { node, .. }) => *node,
            _ => continue,
        };
        if let Some(H::F(f)) = &mut hs[i] {
            let r = std::panic::catch_unwind(std::panic::AssertUnwindSafe(|| handle_extents(f)));
            let ext = match r {
                Ok(Ok(v)) => v,
                Ok(Err(ek)) => {
                    s.violate("C04", "extents-error", op, ek.name(), format!("File::extents() failed with {} after {}", ek.name(), op.show()));
                    return;
                }
                Err(_) => {
                    let (cls, full) = crate::sess::take_panic();
                    s.violate("C04", "extents-panic", op, &cls, format!("File::extents() panicked after {}: {}", op.show(), full));
                    return;
                }
            };
            s.counters.extents_checks += 1;
            let total: u64 = ext.iter().map(|e| u64::from(e.1)).sum();
            let mut data = Vec::with_capacity(total as usize);
            for (o, l) in &ext {
                data.extend_from_slice(&img.bytes(*o, *l as usize));
            }
            let want = &s.model.nodes[node].content;
            if (s.cfg.on("C04") || s.cfg.on("C02")) && &data != want {
                let p = if s.cfg.on("C04") { "C04" } else { "C02" };
                let idx = data.iter().zip(want.iter()).position(|(a, b)| a != b).unwrap_or(data.len().min(want.len()));
                let d = format!(
                    "device bytes at the extents of {} ({} bytes in {} extents) differ from its content ({} bytes) at offset {} after {}",
                    s.model.path_of(node),
                    data.len(),
                    ext.len(),
                    want.len(),
                    idx,
                    op.show()
                );
                s.violate(p, "extents-content", op, "", d);
                return;
            }
            let first = match ext.first() {
                Some((o, _)) if *o >= g0.data_off() => ((o - g0.data_off()) / g0.cluster_size) as u32 + 2,
                Some(_) => 1,
                None => 0,
            };
            opts.overrides.insert(s.model.path_of(node), (first, total as u32));
        }
    }
    // ---- B: independent decode + structural invariants (C03)
    let dec = match fatck::decode(&img, &opts) {
        Ok(d) => d,
        Err(e) => {
            s.violate("C03", "geometry", op, "", format!("independent decode failed after {}: {}", op.show(), e));
            return;
        }
    };
    s.counters.decodes += 1;
    let mut dec = dec;
    if s.cfg.tolerate_baseline_diags {
        // residue is identified by where it sits (slot offset), not by the wording of the diagnostic
        let key = |d: &fatck::Diag| if d.off != 0 { format!("residue@{}", d.off) } else { format!("{}|{}", d.code, d.msg) };
        if s.baseline_diags.is_none() {
            s.baseline_diags = Some(dec.diags.iter().map(key).collect());
        }
        let base = s.baseline_diags.as_ref().unwrap();
        dec.diags.retain(|d| !base.contains(&key(d)));
    }
    if s.cfg.on("C03") && !dec.diags.is_empty() {
        let codes = fatck::diag_codes(&dec.diags);
        let d = format!("after {}: {}", op.show(), dec.diags.iter().map(|d| format!("[{}] {}", d.code, d.msg)).collect::<Vec<_>>().join("; "));
        s.violate("C03", codes[0], op, &codes.join("+"), d);
        return;
    }
    // ---- C: tree comparison raw image <-> model (C01 / C04)
    let mut w = Walk {
        op,
        baseline,
        map: HashMap::new(),
        problem: None,
        new_aliases: Vec::new(),
        stamps: Vec::new(),
        renames: Vec::new(),
    };
    w.map.insert(0, 0);
    cmp_dir(s, &mut w, &dec.root, 0, "/");
    if let Some((rule, _, detail)) = w.problem.take() {
        if s.cfg.on(tree_prop) || s.cfg.on("C02") {
            let failed = false;
            let _ = failed;
            let p: &'static str = if rule == "content" && s.cfg.on("C02") && !baseline { "C02" } else { tree_prop };
            s.violate(p, rule, op, if baseline { "after-remount" } else { "" }, format!("after {}: {}", op.show(), detail));
            return;
        }
    }
    for (k, name) in w.renames.drain(..) {
        s.model.nodes[k].name = name;
    }
    // the volume label entry is nobody's to touch
    if let Some(p) = &s.prev {
        let before = fatck::root_label(&p.root);
        let after = fatck::root_label(&dec.root);
        if before != after && !baseline && (s.cfg.on("C01") || s.cfg.on("C03")) {
            let d = format!("after {}: the volume label entry in the root directory changed from {:?} to {:?}", op.show(), before.map(|l| String::from_utf8_lossy(&l).to_string()), after.map(|l| String::from_utf8_lossy(&l).to_string()));
            s.violate(tree_prop, "label-entry-changed", op, "", d);
            return;
        }
    }
    // ---- C16: aliases of new entries
    for (k, sfn) in w.new_aliases.drain(..) {
        if (s.cfg.on("C16") || s.cfg.on("C01")) && s.model.nodes[k].born == s.op_id || matches!(op, Op::Rename { .. }) {
            if let Some(p) = alias_problem(&sfn) {
                if s.cfg.on("C16") {
                    let d = format!("entry {} got the short name {:?}: {}", s.model.path_of(k), String::from_utf8_lossy(&sfn), p);
                    s.violate("C16", "alias-illegal", op, "", d);
                    return;
                }
            }
            // an alias without a numeric tail is only legitimate when it spells the long name itself (the name fits
            // 8.3 as it is): otherwise a generated alias would shadow a different, perfectly ordinary name
            // ("index.html" answering to "index.htm")
            // (the reference tree of C01 tolerates lookups that are answered by an alias; that tolerance is only sound for
            // aliases a user would not type by accident, so the rule is part of C01's oracle as well)
            if (s.cfg.on("C16") || s.cfg.on("C01")) && !sfn.contains(&b'~') {
                let long = s.model.nodes[k].name.trim_end_matches(|c| c == ' ' || c == '.').to_ascii_uppercase();
                let shown = crate::model::alias_display(&sfn).to_ascii_uppercase();
                if shown != long {
                    let d = format!("entry {} got the short name {:?} without a numeric tail although that is not its own name: the alias answers to a different name", s.model.path_of(k), String::from_utf8_lossy(&sfn));
                    let p: &'static str = if s.cfg.on("C16") { "C16" } else { "C01" };
                    s.violate(p, "alias-shadows-other-name", op, "", d);
                    return;
                }
            }
        }
        s.model.nodes[k].alias = Some(sfn);
    }
    // ---- C18: stamping rules
    let stamps = std::mem::take(&mut w.stamps);
    for (k, new) in stamps {
        let old = s.model.nodes[k].stamps.clone();
        if s.cfg.on("C18") && !baseline {
            if let Some(v) = check_stamps(s, op, k, old.as_ref(), &new) {
                s.violate("C18", v.0, op, "", v.1);
                return;
            }
        }
        s.model.nodes[k].stamps = Some(new);
    }
    // ---- C05: statistics vs raw FAT
    if s.cfg.on("C05") && s.stats_armed {
        let r = std::panic::catch_unwind(std::panic::AssertUnwindSafe(|| fs.stats()));
        s.counters.stats_checks += 1;
        match r {
            Ok(Ok(st)) => {
                if u64::from(st.free_clusters()) != dec.free_count {
                    let d = format!("after {}: stats().free_clusters() = {} but the raw FAT has {} free entries", op.show(), st.free_clusters(), dec.free_count);
                    s.violate("C05", "stats-free", op, if u64::from(st.free_clusters()) > dec.free_count { "over" } else { "under" }, d);
                    return;
                }
            }
            Ok(Err(e)) => {
                s.violate("C05", "stats-error", op, "", format!("stats() failed with {:?}", e));
                return;
            }
            Err(_) => {
                let (cls, full) = crate::sess::take_panic();
                s.violate("C05", "stats-panic", op, &cls, format!("stats() panicked: {}", full));
                return;
            }
        }
    }
    if let Some(pre) = pre {
        let diff = pre.diff(&img);
        // ---- C10: FAT copies / reserved entries / high bits
        if s.cfg.on("C10") {
            if let Some(v) = check_c10(s, &dec.g, pre, &img, &diff) {
                s.violate("C10", v.0, op, "", format!("after {}: {}", op.show(), v.1));
                return;
            }
        }
        // ---- C11: classify every device write of the call
        if s.cfg.on("C11") {
            if let Some(v) = check_c11(s, &dec, &w.map, log, false) {
                s.violate("C11", v.0, op, &v.2, format!("during {}: {}", op.show(), v.1));
                return;
            }
        }
        // ---- C12: dirty-bit latch
        if s.cfg.on("C12") {
            let structural = structural_change(s, &dec, pre, &img, &diff);
            if structural {
                s.latch_changed = true;
            }
            let b = img.u8(dec.g.status_off);
            if s.latch_changed && b & 1 == 0 {
                let d = format!("after {}: the volume has been structurally modified in this mount but the status byte is {:#04x} (dirty bit clear)", op.show(), b);
                s.violate("C12", "dirty-bit-clear", op, if structural { "this-call" } else { "earlier-call" }, d);
                return;
            }
            if b & s.mount_status != s.mount_status {
                let d = format!("after {}: status byte {:#04x} lost bits of the mount-time value {:#04x}", op.show(), b, s.mount_status);
                s.violate("C12", "mount-bits-cleared", op, "", d);
                return;
            }
        }
    } else if s.cfg.on("C10") {
        if dec.g.mirroring() {
            if let Some(d) = fatck::fat_copies_differ(&img, &dec.g) {
                s.violate("C10", "copies-differ", op, "at-mount", d);
                return;
            }
        }
    }
    // ---- C20 / C11: nothing at or past the declared end may be addressed (reads included)
    if s.cfg.on("C20") || s.cfg.on("C11") {
        let b: Vec<(EvKind, u64, u64)> = s.dev.0.borrow_mut().beyond.drain(..).collect();
        if let Some((k, off, len)) = b.first() {
            let p: &'static str = if s.cfg.on("C20") { "C20" } else { "C11" };
            let d = format!("during/after {}: device {} of {} bytes at offset {} reaches past the declared end of the volume ({})", op.show(), k.name(), len, off, dec.g.vol_end());
            s.violate(p, "access-beyond-end", op, k.name(), d);
            return;
        }
    }
    // ---- library view (C01 / C04)
    if s.cfg.lib_walk && !s.cfg.update_accessed && (s.cfg.on("C01") || s.cfg.on("C04")) {
        s.counters.lib_walks += 1;
        let r = std::panic::catch_unwind(std::panic::AssertUnwindSafe(|| lib_walk(s, fs, false)));
        match r {
            Ok(None) => {}
            Ok(Some((rule, detail))) => {
                s.violate(tree_prop, rule, op, if baseline { "after-remount" } else { "" }, format!("after {}: {}", op.show(), detail));
                return;
            }
            Err(_) => {
                let (cls, full) = crate::sess::take_panic();
                s.violate(tree_prop, "lib-walk-panic", op, &cls, format!("listing/reading through the library panicked after {}: {}", op.show(), full));
                return;
            }
        }
    }
    // ---- shadow mount of a copy: dirty report (C12) and remount view (C04)
    if s.cfg.shadow_mount && !baseline {
        shadow_mount(s, op, &img);
        if s.violation.is_some() {
            return;
        }
    }
    s.prev_map = w.map;
    s.prev = Some(dec);
}

fn shadow_mount(s: &mut Sess, op: &Op, img: &Image) {
    s.counters.shadow_mounts += 1;
    let dev = crate::dev::MonDev::new(img.clone());
    dev.set_logging(false, false);
    dev.set_budget(Some(2_000_000));
    let clock = crate::clock::Clock::new(10);
    let r = std::panic::catch_unwind(std::panic::AssertUnwindSafe(|| {
        let opts = fatfs::FsOptions::new().time_provider(clock);
        let fs2: Fs = match fatfs::FileSystem::new(dev.handle(), opts) {
            Ok(f) => f,
            Err(e) => return Err(format!("mount of a copy failed: {:?}", e)),
        };
        let fl = match fs2.read_status_flags() {
            Ok(f) => f,
            Err(e) => return Err(format!("read_status_flags on a copy failed: {:?}", e)),
        };
        let walk = if s.cfg.on("C04") { lib_walk(s, &fs2, true) } else { None };
        drop(fs2);
        Ok((fl.dirty(), walk))
    }));
    match r {
        Err(_) => {
            let (cls, full) = crate::sess::take_panic();
            s.violate("C04", "shadow-mount-panic", op, &cls, format!("mounting a copy of the image after {} panicked: {}", op.show(), full));
        }
        Ok(Err(e)) => s.violate("C04", "shadow-mount-failed", op, "", format!("after {}: {}", op.show(), e)),
        Ok(Ok((dirty, walk))) => {
            if s.cfg.on("C12") && s.latch_changed && !dirty {
                s.violate("C12", "abandoned-not-dirty", op, "", format!("image abandoned after {} (structural changes made) mounts without reporting dirty", op.show()));
                return;
            }
            if let Some((rule, detail)) = walk {
                s.violate("C04", rule, op, "abandoned-copy", format!("second mount of the image after {}: {}", op.show(), detail));
            }
        }
    }
}

fn check_stamps(s: &mut Sess, op: &Op, k: usize, old: Option<&Stamps>, new: &Stamps) -> Option<(&'static str, String)> {
    let path = s.model.path_of(k);
    let born_now = s.model.nodes[k].born == s.op_id && old.is_none();
    let log = &s.last_clock.0;
    if born_now {
        if log.is_empty() {
            return Some(("create-no-clock", format!("{} was created without consulting the time provider", path)));
        }
        let c_ok = log.iter().any(|v| v.0 == new.cdate && v.1 == new.ctime && v.2 == new.ctenth);
        let m_ok = log.iter().any(|v| v.0 == new.mdate && v.1 == new.mtime);
        let a_ok = log.iter().any(|v| v.0 == new.adate) || s.last_clock.1.contains(&new.adate);
        if !c_ok || !m_ok || !a_ok {
            return Some((
                "create-stamp",
                format!(
                    "{} created with stamps c={:#06x}/{:#06x}/{} m={:#06x}/{:#06x} a={:#06x}; time provider handed out {:?} during the call",
                    path, new.cdate, new.ctime, new.ctenth, new.mdate, new.mtime, new.adate, &log[..log.len().min(4)]
                ),
            ));
        }
        return None;
    }
    let Some(old) = old else { return None };
    let dirty = s.model.has_dirty_handle(k);
    // expectations from explicit sets / writes / reads become due when the handle is clean
    if !dirty {
        if let Some(e) = s.stamp_exp.remove(&k) {
            if let Some(c) = e.created {
                if (new.cdate, new.ctime, new.ctenth) != c {
                    return Some(("set-created", format!("{}: created stamp {:#06x}/{:#06x}/{} after flush, expected {:#06x}/{:#06x}/{}", path, new.cdate, new.ctime, new.ctenth, c.0, c.1, c.2)));
                }
            } else if (new.cdate, new.ctime, new.ctenth) != (old.cdate, old.ctime, old.ctenth) {
                return Some(("created-changed", format!("{}: creation stamp changed although it was never set", path)));
            }
            if let Some(m) = e.modified {
                if !m.contains(&(new.mdate, new.mtime)) {
                    return Some(("modified-stamp", format!("{}: modified stamp {:#06x}/{:#06x} after flush, expected one of {:?}", path, new.mdate, new.mtime, &m[..m.len().min(4)])));
                }
            }
            if let Some(a) = e.accessed {
                if !a.contains(&new.adate) {
                    return Some(("accessed-stamp", format!("{}: access date {:#06x} after flush, expected one of {:?}", path, new.adate, &a[..a.len().min(4)])));
                }
            } else if new.adate != old.adate {
                return Some(("accessed-changed", format!("{}: access date changed from {:#06x} to {:#06x} without a set/read with the option on", path, old.adate, new.adate)));
            }
            return None;
        }
    }
    if new == old {
        return None;
    }
    if dirty {
        // committed stamps moved while the handle still holds unflushed state: only a flush can do that
        return None;
    }
    let is_dir = s.model.nodes[k].is_dir;
    // the file whose handle is being flushed / dropped: size and first cluster may change, stamps only as expected
    if matches!(op, Op::Flush { .. } | Op::Close { .. }) && s.touch.first() == Some(&k) {
        if !new.same_stamps(old) && !is_dir {
            return Some(("stamps-changed-on-flush", format!("{}: stamps changed from {:?} to {:?} by a flush although nothing set them", path, &old, &new)));
        }
        return None;
    }
    if s.renamed == Some(k) {
        // with access-date updates enabled a directory that lies on the operation's own path is read (and stamped)
        let atime_dir = is_dir && s.cfg.update_accessed;
        let body_same = old.raw.len() != 32 || new.raw.len() != 32 || (11..32).all(|i| old.raw[i] == new.raw[i] || (atime_dir && (i == 18 || i == 19)));
        let stamps_same = if atime_dir { let mut o2 = old.clone(); o2.adate = new.adate; new.same_stamps(&o2) } else { new.same_stamps(old) };
        if !stamps_same || !body_same {
            return Some(("rename-changed-entry", format!("{}: rename changed more than the name: entry {} -> {}", path, crate::util::hex(&old.raw), crate::util::hex(&new.raw))));
        }
        return None;
    }
    if is_dir && s.touch.contains(&k) {
        if (new.cdate, new.ctime, new.ctenth) != (old.cdate, old.ctime, old.ctenth) {
            return Some(("dir-created-changed", format!("{}: creation stamp of a directory changed", path)));
        }
        if !new.same_raw_except_stamps(old) {
            return Some(("dir-entry-changed", format!("{}: directory entry changed outside its stamps: {} -> {}", path, crate::util::hex(&old.raw), crate::util::hex(&new.raw))));
        }
        return None;
    }
    Some((
        if new.same_stamps(old) { "entry-changed-by-other-op" } else { "stamp-changed-by-other-op" },
        format!("{}: directory entry changed from {} to {} by an operation that must not touch it", path, crate::util::hex(&old.raw), crate::util::hex(&new.raw)),
    ))
}

fn check_c10(s: &Sess, g: &fatck::Geo, pre: &Image, post: &Image, diff: &[(u64, u64)]) -> Option<(&'static str, String)> {
    let fat_lo = g.fat_off(0);
    let fat_hi = g.root_off();
    let vpre = fatck::Vol { img: pre, g: g.clone() };
    let vpost = fatck::Vol { img: post, g: g.clone() };
    for (a, b) in diff {
        if *b <= fat_lo || *a >= fat_hi {
            continue;
        }
        let a = (*a).max(fat_lo);
        let b = (*b).min(fat_hi);
        let mut o = a;
        while o < b {
            let copy = (o - fat_lo) / g.fat_bytes();
            let cend = fat_lo + (copy + 1) * g.fat_bytes();
            let e = b.min(cend);
            if !g.mirroring() && copy != g.active_fat() {
                return Some(("inactive-copy-written", format!("FAT copy {} changed at table byte {} while mirroring is off and copy {} is active", copy, o - g.fat_off(copy), g.active_fat())));
            }
            let (lo, hi) = fat_entry_span(g, o - g.fat_off(copy), e - g.fat_off(copy));
            for n in lo..hi.min(g.fat_capacity()) {
                let x = vpre.fat_raw(copy, n);
                let y = vpost.fat_raw(copy, n);
                if x == y {
                    continue;
                }
                if n < 2 {
                    return Some(("reserved-entry-changed", format!("FAT[{}] of copy {} changed from {:#x} to {:#x}", n, copy, x, y)));
                }
                if n > g.max_cluster() {
                    return Some(("padding-entry-changed", format!("FAT entry {} (beyond the last cluster {}) changed from {:#x} to {:#x}", n, g.max_cluster(), x, y)));
                }
                if g.fat_bits == 32 && (x >> 28) != (y >> 28) {
                    return Some(("fat32-high-bits", format!("FAT32 entry {} changed its reserved top bits: {:#010x} -> {:#010x}", n, x, y)));
                }
            }
            o = e;
        }
    }
    if g.mirroring() {
        if let Some(d) = fatck::fat_copies_differ(post, g) {
            return Some(("copies-differ", d));
        }
    } else if let Some(m) = &s.mount_img {
        for c in 0..g.nfats {
            if c == g.active_fat() {
                continue;
            }
            let x = m.bytes(g.fat_off(c), g.fat_bytes() as usize);
            let y = post.bytes(g.fat_off(c), g.fat_bytes() as usize);
            if x != y {
                return Some(("inactive-copy-written", format!("inactive FAT copy {} differs from its mount-time content", c)));
            }
        }
    }
    None
}

/// Classify every write of `log` against the region / ownership maps. Returns (rule, detail, sig-extra).
fn check_c11(s: &mut Sess, post: &Decoded, post_map: &HashMap<usize, u32>, log: &[Ev], unmounting: bool) -> Option<(&'static str, String, String)> {
    let g = &post.g;
    let mut pre_ids: HashSet<u32> = HashSet::new();
    let mut post_ids: HashSet<u32> = HashSet::new();
    let mut root_ok = false;
    for n in &s.touch {
        if *n == 0 {
            root_ok = true;
        }
        if let Some(i) = s.prev_map.get(n) {
            pre_ids.insert(*i);
        }
        if let Some(i) = post_map.get(n) {
            post_ids.insert(*i);
        }
    }
    let empty = HashMap::new();
    let pre_owner = s.prev.as_ref().map_or(&empty, |p| &p.owner);
    for ev in log {
        if ev.kind != EvKind::Write || ev.len == 0 {
            continue;
        }
        s.counters.writes_classified += 1;
        s.counters.dev_writes += 1;
        let end = ev.off + ev.len;
        if end > g.vol_end() {
            return Some(("beyond-end", format!("write of {} bytes at {} crosses the declared end of the volume ({})", ev.len, ev.off, g.vol_end()), "beyond".into()));
        }
        let mut o = ev.off;
        while o < end {
            let r = g.region(o);
            // next boundary: sector granularity is enough except for the status byte
            let mut next = (o / g.bps + 1) * g.bps;
            if o < g.bps {
                next = if o < g.status_off { g.status_off.min(next) } else if o == g.status_off { o + 1 } else { next };
            }
            let next = next.min(end);
            let bad: Option<String> = match r {
                Region::BootStatus => None,
                Region::BootOther => Some("boot sector bytes other than the status byte".into()),
                // the information sector is one of the regions any operation may update (C11 lists it without tying
                // it to unmount; an implementation may store count / hint eagerly). Its content is judged by C05.
                Region::FsInfo => None,
                Region::BackupBoot => Some("the backup boot sector".into()),
                Region::ReservedOther => Some("a reserved sector".into()),
                Region::Fat(c) => {
                    if unmounting {
                        Some(format!("FAT copy {} during unmount", c))
                    } else if !g.mirroring() && u64::from(c) != g.active_fat() {
                        Some(format!("inactive FAT copy {}", c))
                    } else {
                        None
                    }
                }
                Region::RootDir => {
                    if root_ok && !unmounting {
                        None
                    } else {
                        Some("the fixed root directory area (not part of this operation)".into())
                    }
                }
                Region::Data(c) => {
                    let po = pre_owner.get(&c);
                    let ok = match po {
                        None => !unmounting,
                        Some(id) => pre_ids.contains(id) || (*id == 0 && root_ok),
                    } || post.owner.get(&c).map_or(false, |id| post_ids.contains(id) && po.is_none());
                    if ok {
                        None
                    } else {
                        let who = s.prev.as_ref().and_then(|p| p.objects.iter().find(|ob| Some(&ob.id) == po)).map(|ob| ob.path.clone()).unwrap_or_default();
                        Some(format!("cluster {} owned by {} which this operation may not modify", c, who))
                    }
                }
                Region::Slack => Some("the slack after the last cluster".into()),
                Region::Beyond => Some("bytes past the declared end".into()),
            };
            if let Some(b) = bad {
                let extra = format!("{:?}", r).split('(').next().unwrap_or("").to_string();
                return Some(("write-outside-allowed-set", format!("device write ({} bytes at offset {}) touches {}", ev.len, ev.off, b), extra));
            }
            o = next;
        }
    }
    None
}

/// Did the image change structurally between two boundaries (C12's notion)?
fn structural_change(s: &Sess, post: &Decoded, pre: &Image, img: &Image, diff: &[(u64, u64)]) -> bool {
    let g = &post.g;
    let mut dir_ids: HashSet<u32> = HashSet::new();
    dir_ids.insert(0);
    for o in &post.objects {
        if o.is_dir {
            dir_ids.insert(o.id);
        }
    }
    let mut pre_dir_ids: HashSet<u32> = HashSet::new();
    pre_dir_ids.insert(0);
    if let Some(p) = &s.prev {
        for o in &p.objects {
            if o.is_dir {
                pre_dir_ids.insert(o.id);
            }
        }
    }
    let empty = HashMap::new();
    let pre_owner = s.prev.as_ref().map_or(&empty, |p| &p.owner);
    for (a, b) in diff {
        let mut o = *a;
        while o < *b {
            let r = g.region(o);
            let slot_end = (o / 32 + 1) * 32;
            let e = slot_end.min(*b);
            match r {
                Region::BootStatus | Region::FsInfo => {}
                Region::Fat(_) => return true,
                Region::RootDir | Region::Data(_) => {
                    let is_dir = match r {
                        Region::RootDir => true,
                        Region::Data(c) => {
                            let in_post = post.owner.get(&c).map(|id| dir_ids.contains(id));
                            let in_pre = pre_owner.get(&c).map(|id| pre_dir_ids.contains(id));
                            match (in_pre, in_post) {
                                (Some(true), Some(true)) => true,
                                (Some(true), None) | (None, Some(true)) | (None, None) => {
                                    // cluster changed hands or is free: data in it is not (yet) anybody's content,
                                    // the structural change is the FAT update which is detected separately
                                    false
                                }
                                _ => return true,
                            }
                        }
                        _ => false,
                    };
                    if is_dir {
                        // slot-wise: only stamp bytes may differ
                        let slot = o / 32 * 32;
                        let x = pre.bytes(slot, 32);
                        let y = img.bytes(slot, 32);
                        let lfn = x[11] & 0x3F == 0x0F || y[11] & 0x3F == 0x0F;
                        for i in 0..32 {
                            if x[i] != y[i] {
                                let stamp = !lfn && ((13..20).contains(&i) || (22..26).contains(&i));
                                if !stamp {
                                    return true;
                                }
                            }
                        }
                    }
                }
                _ => return true,
            }
            o = e;
        }
    }
    false
}

pub fn after_unmount(s: &mut Sess, pre: &Image, log: &[Ev], how: u8, op: &Op) {
    let img = s.dev.snapshot();
    let opts = DecodeOpts {
        read_content: false,
        unicode_fold: s.cfg.unicode,
        ..Default::default()
    };
    let dec = match fatck::decode(&img, &opts) {
        Ok(d) => d,
        Err(e) => {
            s.violate("C03", "geometry", op, "", format!("independent decode failed after unmount: {}", e));
            return;
        }
    };
    let mut dec = dec;
    if let (true, Some(base)) = (s.cfg.tolerate_baseline_diags, s.baseline_diags.as_ref()) {
        let key = |d: &fatck::Diag| if d.off != 0 { format!("residue@{}", d.off) } else { format!("{}|{}", d.code, d.msg) };
        dec.diags.retain(|d| !base.contains(&key(d)));
    }
    if s.cfg.on("C03") && !dec.diags.is_empty() {
        let codes = fatck::diag_codes(&dec.diags);
        let d = dec.diags.iter().map(|d| format!("[{}] {}", d.code, d.msg)).collect::<Vec<_>>().join("; ");
        s.violate("C03", codes[0], op, &codes.join("+"), format!("after unmount: {}", d));
        return;
    }
    if s.cfg.on("C11") {
        s.touch.clear();
        let map = HashMap::new();
        let r = if how == 2 {
            log.iter().find(|e| e.kind == EvKind::Write).map(|e| ("write-outside-allowed-set", format!("device write at {} while the volume was abandoned", e.off), "abandon".to_string()))
        } else {
            check_c11(s, &dec, &map, log, true)
        };
        if let Some(v) = r {
            s.violate("C11", v.0, op, &v.2, format!("during unmount: {}", v.1));
            return;
        }
    }
    let b = img.u8(dec.g.status_off);
    if s.cfg.on("C12") {
        if how < 2 && b != s.mount_status {
            s.violate("C12", "unmount-status", op, "", format!("status byte after clean unmount is {:#04x}, mount-time value was {:#04x}", b, s.mount_status));
            return;
        }
        if how == 2 && s.latch_changed && b & 1 == 0 {
            s.violate("C12", "dirty-bit-clear", op, "abandon", format!("abandoned volume has status byte {:#04x}", b));
            return;
        }
    }
    if s.cfg.on("C05") && dec.g.fat_bits == 32 && how < 2 {
        let fo = dec.g.fsinfo_sector * dec.g.bps;
        let written = log.iter().any(|e| e.kind == EvKind::Write && e.len > 0 && e.off < fo + dec.g.bps && e.off + e.len > fo);
        let clean = b & 1 == 0;
        if !written && !(clean && s.count_known) {
            // nothing was stored by this unmount and the library never claimed to know the count (or the
            // volume stays marked dirty, so the sector is ignored by the next mount): no claim to check
        } else if let Some((cnt, hint)) = fatck::fsinfo(&img, &dec.g) {
            let exact = u64::from(cnt) == dec.free_count;
            if !(exact || (cnt == 0xFFFF_FFFF && !s.count_known)) {
                s.violate(
                    "C05",
                    "fsinfo-count",
                    op,
                    if cnt == 0xFFFF_FFFF { "unknown" } else { "wrong" },
                    format!("FS-info free count after unmount is {:#x}, the raw FAT has {} free entries (count known to the library: {})", cnt, dec.free_count, s.count_known),
                );
                return;
            }
            if written && hint != 0xFFFF_FFFF && !(2..=dec.g.max_cluster()).contains(&u64::from(hint)) {
                s.violate(
                    "C05",
                    "fsinfo-hint-range",
                    op,
                    if u64::from(hint) == dec.g.max_cluster() + 1 { "total+2" } else { "other" },
                    format!("FS-info next-free hint after unmount is {} but valid clusters are 2..={}", hint, dec.g.max_cluster()),
                );
                return;
            }
        } else {
            s.violate("C05", "fsinfo-signature", op, "", "FS-info signatures missing after unmount".into());
            return;
        }
        let _ = pre;
    }
    if s.cfg.on("C10") && dec.g.mirroring() {
        if let Some(d) = fatck::fat_copies_differ(&img, &dec.g) {
            s.violate("C10", "copies-differ", op, "after-unmount", d);
        }
    }
}
