//! Monitors evaluated at every call boundary of a session (C01-C05, C10-C12, C16, C18 rules).
#![allow(dead_code)]

use std::collections::{HashMap, HashSet};

use crate::dev::{Ev, EvKind, Image};
use crate::fatck::{self, DDir, DNode, DecodeOpts, Decoded, NodeKind, Region};
use crate::model::{Stamps, EK, MH};
use crate::ops::{DirRef, Op};
use crate::sess::{handle_extents, Expect, Fs, Out, Sess, H};

fn units(s: &str) -> Vec<u16> {
    s.encode_utf16().collect()
}

/// Build the model from what is already on the image (fresh volumes: nothing).
pub fn seed_model_from_image(s: &mut Sess) {
    let img = s.dev.snapshot();
    let opts = DecodeOpts {
        read_content: true,
        unicode_fold: s.cfg.unicode,
        ..Default::default()
    };
    if let Ok(d) = fatck::decode(&img, &opts) {
        fn add(s: &mut Sess, dir: &DDir, mnode: usize) {
            for n in &dir.nodes {
                match &n.kind {
                    NodeKind::File { content, .. } => {
                        let name = String::from_utf16_lossy(&n.e.display_units());
                        let id = s.model.add_child(mnode, &name, false, 0);
                        s.model.nodes[id].content = content.clone().unwrap_or_default();
                        s.model.nodes[id].alias = Some(n.e.sfn);
                        s.model.nodes[id].stamps = Some(stamps_of(n));
                    }
                    NodeKind::Dir(sub) => {
                        let name = String::from_utf16_lossy(&n.e.display_units());
                        let id = s.model.add_child(mnode, &name, true, 0);
                        s.model.nodes[id].alias = Some(n.e.sfn);
                        s.model.nodes[id].stamps = Some(stamps_of(n));
                        add(s, sub, id);
                    }
                    _ => {}
                }
            }
        }
        add(s, &d.root, 0);
    }
}

pub fn stamps_of(n: &DNode) -> Stamps {
    Stamps {
        ctenth: n.e.ctenth,
        ctime: n.e.ctime,
        cdate: n.e.cdate,
        adate: n.e.adate,
        mtime: n.e.mtime,
        mdate: n.e.mdate,
        raw: n.e.raw.to_vec(),
    }
}

fn find_ddir<'a>(s: &Sess, d: &'a Decoded, node: usize) -> Option<&'a DDir> {
    // path from root to node
    let mut chain = Vec::new();
    let mut n = node;
    while n != 0 {
        chain.push(n);
        n = s.model.nodes[n].parent;
    }
    chain.reverse();
    let mut cur = &d.root;
    for c in chain {
        let want = units(&s.model.nodes[c].name);
        let mut next = None;
        for dn in &cur.nodes {
            if let NodeKind::Dir(sub) = &dn.kind {
                if dn.e.display_units() == want {
                    next = Some(&**sub);
                    break;
                }
            }
        }
        cur = next?;
    }
    Some(cur)
}

/// (longest run of free slots, trailing free run) of a decoded directory
fn free_runs(d: &DDir, limit: usize) -> (usize, usize) {
    let mut best = 0;
    let mut run = 0;
    for k in d.slot_kinds.iter().take(limit) {
        if *k == 0 || *k == 1 {
            run += 1;
            best = best.max(run);
        } else {
            run = 0;
        }
    }
    (best, run)
}

fn set_handle(s: &mut Sess, slot: Option<usize>, stored: bool, h: MH) {
    if let (Some(i), true) = (slot, stored) {
        if i < s.model.handles.len() {
            s.model.handles[i] = Some(h);
        }
    }
}

/// Compare the result of `op` with the model, update the model.
#[allow(clippy::too_many_arguments)]
pub fn judge<'f>(s: &mut Sess, _fs: &'f Fs, _hs: &mut [Option<H<'f>>], op: &Op, exp: Option<&Expect>, out: &Out, _pre: &Image, _log: &[Ev]) {
    let ek = out.ek.unwrap_or(EK::Ok);
    s.touch.clear();
    s.renamed = None;
    match op {
        Op::CreateFile { .. } | Op::CreateDir { .. } | Op::OpenFile { .. } | Op::OpenDir { .. } | Op::Remove { .. } | Op::Rename { .. } => {
            let x = exp.expect("namespace op without expectation");
            // C11 touch set: traversed dirs, their parents, targets
            for d in &x.dirs {
                s.touch.push(*d);
                s.touch.push(s.model.nodes[*d].parent);
            }
            s.touch.push(x.parent);
            s.touch.push(x.dst_parent);
            for t in &x.targets {
                s.touch.push(*t);
            }
            if ek == EK::Ok {
                if !x.errs.is_empty() {
                    let names: Vec<&str> = x.errs.iter().map(|e| e.name()).collect();
                    let special = if matches!(op, Op::Rename { .. }) && x.errs.contains(&EK::Other) { "into-own-subtree" } else { "" };
                    s.violate(
                        "C01",
                        "unexpected-success",
                        op,
                        &format!("{}{}", names.join("/"), special),
                        format!("{} returned Ok, the reference tree requires one of {:?}", op.show(), names),
                    );
                    return;
                }
                let slot = match op {
                    Op::CreateFile { slot, .. } | Op::CreateDir { slot, .. } | Op::OpenFile { slot, .. } | Op::OpenDir { slot, .. } => *slot,
                    _ => None,
                };
                match op {
                    Op::CreateFile { .. } | Op::CreateDir { .. } => {
                        let is_dir = matches!(op, Op::CreateDir { .. });
                        let node = match x.existing {
                            Some(n) => n,
                            None => {
                                let id = s.model.add_child(x.parent, &x.last, is_dir, s.op_id);
                                s.touch.push(id);
                                id
                            }
                        };
                        let h = if is_dir { MH::Dir { node } } else { MH::File { node, cur: 0, dirty: false } };
                        set_handle(s, slot, out.stored, h);
                    }
                    Op::OpenFile { .. } => {
                        let node = x.existing.unwrap();
                        set_handle(s, slot, out.stored, MH::File { node, cur: 0, dirty: false });
                    }
                    Op::OpenDir { .. } => {
                        let node = x.existing.unwrap();
                        set_handle(s, slot, out.stored, MH::Dir { node });
                    }
                    Op::Remove { .. } => {
                        let node = x.existing.unwrap();
                        s.model.remove_node(node);
                        s.stamp_exp.remove(&node);
                    }
                    Op::Rename { .. } => {
                        let src = x.existing.unwrap();
                        if x.dst_existing == Some(src) {
                            // same entry: nothing changes (a case-only spelling change is tolerated later)
                        } else {
                            s.renamed = Some(src);
                            s.model.detach(src);
                            s.model.nodes[src].parent = x.dst_parent;
                            s.model.nodes[src].name = x.dst_last.clone();
                            s.model.nodes[src].alias = None;
                            s.model.nodes[x.dst_parent].children.push(src);
                        }
                    }
                    _ => {}
                }
            } else {
                if x.errs.contains(&ek) {
                    // C15: a call rejected for its name must not have touched the image (status byte aside)
                    if s.cfg.on("C15") && (ek == EK::NameLength || ek == EK::NameChar) {
                        let post = s.dev.snapshot();
                        let so = s.prev.as_ref().map_or(0x25, |p| p.g.status_off);
                        if let Some((a, b)) = _pre.diff(&post).into_iter().find(|(a, b)| !(*a == so && *b == so + 1)) {
                            let d = format!("{} was rejected with {} but bytes {}..{} of the image changed", op.show(), ek.name(), a, b);
                            s.violate("C15", "rejected-name-side-effect", op, ek.name(), d);
                        }
                    }
                    return;
                }
                // out-of-space family
                let space_op = x.errs.is_empty() && x.slots_needed > 0;
                if space_op && (ek == EK::NotEnoughSpace || ek == EK::WriteZero) {
                    let dnode = if matches!(op, Op::Rename { .. }) { x.dst_parent } else { x.parent };
                    let (fixed_root, max_run, tail, spc_slots, free) = match &s.prev {
                        Some(p) => {
                            let fixed_root = p.g.fat_bits != 32 && dnode == 0;
                            // a fixed root may stop at BPB_RootEntCnt or use the rest of its last sector: only room
                            // within the declared count obliges the library to succeed
                            let limit = if fixed_root { p.g.root_entries as usize } else { usize::MAX };
                            let (mr, tail) = find_ddir(s, p, dnode).map(|d| free_runs(d, limit)).unwrap_or((0, 0));
                            (fixed_root, mr, tail, (p.g.cluster_size / 32) as usize, p.free_count)
                        }
                        None => (false, 0, 0, 16, 0),
                    };
                    let room = max_run >= x.slots_needed;
                    let admissible = if fixed_root {
                        !room || (x.new_dir && free < 1)
                    } else {
                        let growth = if room { 0 } else { (x.slots_needed - tail.min(x.slots_needed) + spc_slots - 1) / spc_slots };
                        let need = growth as u64 + u64::from(x.new_dir);
                        free < need
                    };
                    if !admissible {
                        s.violate(
                            "C05",
                            "enospc-with-room",
                            op,
                            ek.name(),
                            format!(
                                "{} failed with {} although room exists (free clusters {}, longest free slot run {}, slots needed {})",
                                op.show(),
                                ek.name(),
                                free,
                                max_run,
                                x.slots_needed
                            ),
                        );
                        return;
                    }
                    if ek == EK::WriteZero {
                        s.violate(
                            "C01",
                            "undocumented-error-kind",
                            op,
                            if fixed_root { "WriteZero-full-fixed-root" } else { "WriteZero" },
                            format!("{} failed with WriteZero (not a documented result; out of room should be NotEnoughSpace)", op.show()),
                        );
                    }
                    return;
                }
                let names: Vec<&str> = x.errs.iter().map(|e| e.name()).collect();
                s.violate(
                    "C01",
                    "wrong-result",
                    op,
                    &format!("{}-vs-{}", ek.name(), if names.is_empty() { "Ok".to_string() } else { names.join("/") }),
                    format!("{} returned {}, the reference tree expects {}", op.show(), ek.name(), if names.is_empty() { "Ok".to_string() } else { format!("one of {:?}", names) }),
                );
            }
        }
        Op::List { dir } => {
            let node = match dir {
                DirRef::Root => 0,
                DirRef::H(i) => match &s.model.handles[*i] {
                    Some(MH::Dir { node }) => *node,
                    _ => return,
                },
            };
            s.touch.push(node);
            s.touch.push(s.model.nodes[node].parent);
            if ek != EK::Ok {
                s.violate("C01", "list-error", op, ek.name(), format!("{} failed with {}", op.show(), ek.name()));
                return;
            }
            let mut want: Vec<(Vec<u16>, bool, Option<u64>)> = Vec::new();
            for c in &s.model.nodes[node].children {
                let n = &s.model.nodes[*c];
                let len = if n.is_dir || s.model.file_handle_on(*c).is_some() { None } else { Some(n.content.len() as u64) };
                want.push((units(&n.name), n.is_dir, len));
            }
            let got: Vec<&crate::sess::Listed> = out.listing.iter().filter(|l| l.short != b"." && l.short != b"..").collect();
            let mut used = vec![false; got.len()];
            for (k, isd, len) in &want {
                let hit = got.iter().enumerate().position(|(i, l)| !used[i] && crate::sess::name_matches(l, k));
                match hit {
                    None => {
                        s.violate("C01", "list-missing", op, "", format!("{} does not list {}", op.show(), crate::util::show_units(k)));
                        return;
                    }
                    Some(i) => {
                        used[i] = true;
                        let l = got[i];
                        if l.is_dir != *isd || len.map_or(false, |x| x != l.len) {
                            s.violate("C01", "list-attr", op, "", format!("{}: entry {} listed as dir={} len={}, model dir={} len={:?}", op.show(), crate::util::show_units(k), l.is_dir, l.len, isd, len));
                            return;
                        }
                    }
                }
            }
            if let Some(i) = used.iter().position(|u| !*u) {
                s.violate("C01", "list-ghost", op, "", format!("{} lists {} which the reference tree does not contain", op.show(), crate::util::show_units(&got[i].name)));
                return;
            }
        }
        Op::Read { h, len } | Op::Write { h, len } => {
            let (node, cur) = match &s.model.handles[*h] {
                Some(MH::File { node, cur, .. }) => (*node, *cur),
                _ => return,
            };
            s.touch.push(node);
            s.touch.push(s.model.nodes[node].parent);
            let size = s.model.nodes[node].content.len() as u64;
            let is_read = matches!(op, Op::Read { .. });
            if is_read {
                if ek != EK::Ok {
                    s.violate("C02", "read-error", op, ek.name(), format!("{} at {} of {} failed with {}", op.show(), cur, size, ek.name()));
                    return;
                }
                let remaining = size - cur;
                let n = out.n;
                let maxn = (*len as u64).min(remaining);
                if n > maxn {
                    s.violate("C02", "read-too-much", op, "", format!("{} at {} of {} returned {} bytes (> {})", op.show(), cur, size, n, maxn));
                    return;
                }
                if n == 0 && maxn > 0 {
                    s.violate("C02", "read-zero", op, "", format!("{} at {} of {} returned 0 although {} bytes remain", op.show(), cur, size, remaining));
                    return;
                }
                let want = &s.model.nodes[node].content[cur as usize..(cur + n) as usize];
                if out.data != want {
                    let i = out.data.iter().zip(want.iter()).position(|(a, b)| a != b).unwrap_or(0);
                    s.violate(
                        "C02",
                        "read-data",
                        op,
                        "",
                        format!("{} at {} of {}: byte {} is {:#04x}, expected {:#04x}", op.show(), cur, size, cur + i as u64, out.data.get(i).copied().unwrap_or(0), want.get(i).copied().unwrap_or(0)),
                    );
                    return;
                }
                let upd = s.cfg.update_accessed && n > 0;
                if let Some(MH::File { cur: c, dirty, .. }) = &mut s.model.handles[*h] {
                    *c += n;
                    if upd {
                        *dirty = true;
                    }
                }
                if upd {
                    let dates = s.last_clock.1.clone();
                    s.stamp_exp.entry(node).or_default().accessed = Some(dates);
                }
            } else {
                if ek == EK::NotEnoughSpace {
                    let cs = s.prev.as_ref().map_or(512, |p| p.g.cluster_size);
                    let free = s.prev.as_ref().map_or(0, |p| p.free_count);
                    let needs_alloc = cur == size && cur % cs == 0 && *len > 0;
                    if !(needs_alloc && free == 0) {
                        s.violate("C05", "enospc-with-room", op, "write", format!("{} at {} of {} failed with NotEnoughSpace; free clusters {}", op.show(), cur, size, free));
                    }
                    return;
                }
                if ek != EK::Ok {
                    s.violate("C02", "write-error", op, ek.name(), format!("{} at {} of {} failed with {}", op.show(), cur, size, ek.name()));
                    return;
                }
                let n = out.n;
                if n > *len as u64 || (n == 0 && *len > 0 && cur + (*len as u64) < u64::from(u32::MAX)) {
                    s.violate("C02", "write-count", op, "", format!("{} at {} returned {}", op.show(), cur, n));
                    return;
                }
                let c = &mut s.model.nodes[node].content;
                let end = (cur + n) as usize;
                if c.len() < end {
                    c.resize(end, 0);
                }
                for i in 0..n {
                    c[(cur + i) as usize] = crate::model::tag_byte(s.op_id, cur + i);
                }
                if let Some(MH::File { cur: cc, dirty, .. }) = &mut s.model.handles[*h] {
                    *cc += n;
                    if n > 0 {
                        *dirty = true;
                    }
                }
                if n > 0 {
                    let vals: Vec<(u16, u16)> = s.last_clock.0.iter().map(|x| (x.0, x.1)).collect();
                    s.stamp_exp.entry(node).or_default().modified = Some(vals);
                }
            }
        }
        Op::Seek { h, whence, off } => {
            let (node, cur) = match &s.model.handles[*h] {
                Some(MH::File { node, cur, .. }) => (*node, *cur),
                _ => return,
            };
            let size = s.model.nodes[node].content.len() as i128;
            let target: i128 = match whence % 3 {
                0 => *off as u64 as i128,
                1 => cur as i128 + *off as i128,
                _ => size + *off as i128,
            };
            if target > i128::from(u32::MAX) {
                // outside the asserted domain (FAT cannot represent it): only totality is required
                if ek == EK::Ok {
                    if let Some(MH::File { cur: c, .. }) = &mut s.model.handles[*h] {
                        *c = out.n.min(size as u64);
                    }
                }
                return;
            }
            if target < 0 {
                if ek == EK::Ok {
                    s.violate("C02", "seek-negative-accepted", op, "", format!("{} from {} (size {}) succeeded with position {}", op.show(), cur, size, out.n));
                } else if ek != EK::InvalidInput {
                    s.violate("C02", "seek-wrong-error", op, ek.name(), format!("{} returned {}", op.show(), ek.name()));
                }
                return;
            }
            if ek != EK::Ok {
                s.violate("C02", "seek-error", op, ek.name(), format!("{} from {} (size {}) failed with {}", op.show(), cur, size, ek.name()));
                return;
            }
            let want = target.min(size) as u64;
            if out.n != want {
                s.violate("C02", "seek-position", op, "", format!("{} from {} (size {}) returned {}, expected {}", op.show(), cur, size, out.n, want));
                return;
            }
            if let Some(MH::File { cur: c, .. }) = &mut s.model.handles[*h] {
                *c = want;
            }
        }
        Op::Extents { h } => {
            let node = match &s.model.handles[*h] {
                Some(MH::File { node, .. }) => *node,
                _ => return,
            };
            if ek != EK::Ok {
                s.violate("C04", "extents-error", op, ek.name(), format!("{} failed with {}", op.show(), ek.name()));
                return;
            }
            let size = s.model.nodes[node].content.len() as u64;
            if out.n != size {
                s.violate("C04", "extents-length", op, "", format!("{} covers {} bytes, the file has {}", op.show(), out.n, size));
            }
        }
        Op::Truncate { h } => {
            let (node, cur) = match &s.model.handles[*h] {
                Some(MH::File { node, cur, .. }) => (*node, *cur),
                _ => return,
            };
            s.touch.push(node);
            s.touch.push(s.model.nodes[node].parent);
            if ek != EK::Ok {
                s.violate("C02", "truncate-error", op, ek.name(), format!("{} at {} failed with {}", op.show(), cur, ek.name()));
                return;
            }
            s.model.nodes[node].content.truncate(cur as usize);
            if let Some(MH::File { dirty, .. }) = &mut s.model.handles[*h] {
                *dirty = true;
            }
        }
        Op::Flush { h } => {
            let node = match &s.model.handles[*h] {
                Some(MH::File { node, .. }) => *node,
                _ => return,
            };
            s.touch.push(node);
            s.touch.push(s.model.nodes[node].parent);
            if ek != EK::Ok {
                s.violate("C02", "flush-error", op, ek.name(), format!("{} failed with {}", op.show(), ek.name()));
                return;
            }
            if let Some(MH::File { dirty, .. }) = &mut s.model.handles[*h] {
                *dirty = false;
            }
        }
        Op::Close { h } => {
            match &s.model.handles[*h] {
                Some(MH::File { node, .. }) | Some(MH::Dir { node }) => {
                    s.touch.push(*node);
                    s.touch.push(s.model.nodes[*node].parent);
                }
                None => {}
            }
            s.model.handles[*h] = None;
        }
        Op::SetTimes { h, which, date, time, tenth } => {
            let node = match &s.model.handles[*h] {
                Some(MH::File { node, .. }) => *node,
                _ => return,
            };
            if let Some(MH::File { dirty, .. }) = &mut s.model.handles[*h] {
                *dirty = true;
            }
            let e = s.stamp_exp.entry(node).or_default();
            match which % 3 {
                0 => e.created = Some((*date, *time, *tenth)),
                1 => e.modified = Some(vec![(*date, *time)]),
                _ => e.accessed = Some(vec![*date]),
            }
        }
        Op::Stats => {
            if ek != EK::Ok {
                s.violate("C05", "stats-error", op, ek.name(), format!("stats() failed with {}", ek.name()));
                return;
            }
            s.stats_armed = true;
            if !s.fsinfo_trusted {
                s.counters.fsinfo_exception_armed += 1;
            }
            s.count_known = true;
            if let Some(p) = &s.prev {
                let (free, total, cs) = out.stats;
                if u64::from(total) != p.g.total_clusters || u64::from(cs) != p.g.cluster_size {
                    let d = format!("stats(): total_clusters {} cluster_size {}, raw geometry {} / {}", total, cs, p.g.total_clusters, p.g.cluster_size);
                    s.violate("C05", "stats-geometry", op, "", d);
                    return;
                }
                if u64::from(free) != p.free_count {
                    let d = format!("stats().free_clusters() = {} but the raw FAT has {} free entries", free, p.free_count);
                    s.violate("C05", "stats-free", op, if u64::from(free) > p.free_count { "over" } else { "under" }, d);
                }
            }
        }
        Op::StatusFlags => {
            if ek != EK::Ok {
                s.violate("C12", "status-flags-error", op, ek.name(), format!("read_status_flags failed with {}", ek.name()));
            }
        }
        Op::Label => {
            if ek != EK::Ok {
                s.violate("C04", "label-error", op, ek.name(), format!("label query failed with {}", ek.name()));
                return;
            }
            if let Some(p) = &s.prev {
                let want = fatck::root_label(&p.root).map(|l| l.to_vec()).unwrap_or_default();
                if out.data != want {
                    let d = format!("root label read as {:?}, raw decode {:?}", out.data, want);
                    s.violate("C04", "label-mismatch", op, "", d);
                }
            }
        }
        Op::Remount { .. } => {}
    }
}

/// C13: a read-only session issues no device write; sole exception: FS-info sector on FAT32 after a
/// statistics query when the library had no trusted free count.
pub fn check_readonly_writes(s: &mut Sess, op: &Op, log: &[Ev], _unmounting: bool) {
    for e in log {
        if e.kind != EvKind::Write {
            continue;
        }
        let mut allowed = false;
        if let Some(p) = &s.prev {
            let g = &p.g;
            // the recomputed count "may be stored in that sector": when (at the query, at a later call, at unmount) is
            // the implementation's choice
            if g.fat_bits == 32 && s.stats_armed && !s.fsinfo_trusted {
                let fo = g.fsinfo_sector * g.bps;
                if e.off >= fo && e.off + e.len.max(1) <= fo + g.bps {
                    allowed = true;
                    s.counters.readonly_exceptions += 1;
                }
            }
        }
        if !allowed {
            let d = format!(
                "read-only session: {} issued a device write of {} bytes at offset {}{}",
                op.show(),
                e.len,
                e.off,
                if e.in_drop { " (from a destructor)" } else { "" }
            );
            let region = s.prev.as_ref().map(|p| format!("{:?}", p.g.region(e.off))).unwrap_or_default();
            s.violate("C13", "write-in-read-only-session", op, region.split('(').next().unwrap_or(""), d);
            return;
        }
    }
}

include!("checks_post.rs");
