//! Small std-only utilities: PRNG, JSON writer, SHA-256, FNV hash.
#![allow(dead_code)]

use std::fmt::Write as _;

// ---------------------------------------------------------------- PRNG
#[derive(Clone, Debug)]
pub struct Rng {
    s: [u64; 4],
}

fn splitmix(x: &mut u64) -> u64 {
    *x = x.wrapping_add(0x9E37_79B9_7F4A_7C15);
    let mut z = *x;
    z = (z ^ (z >> 30)).wrapping_mul(0xBF58_476D_1CE4_E5B9);
    z = (z ^ (z >> 27)).wrapping_mul(0x94D0_49BB_1331_11EB);
    z ^ (z >> 31)
}

impl Rng {
    pub fn new(seed: u64) -> Self {
        let mut x = seed;
        let s = [splitmix(&mut x), splitmix(&mut x), splitmix(&mut x), splitmix(&mut x)];
        Rng { s }
    }
    /// Independent stream derived from (seed, a, b).
    pub fn derive(seed: u64, a: u64, b: u64) -> Self {
        let mut x = seed ^ a.wrapping_mul(0xD6E8_FEB8_6659_FD93) ^ b.wrapping_mul(0xA076_1D64_78BD_642F);
        let _ = splitmix(&mut x);
        Rng::new(splitmix(&mut x) ^ a.rotate_left(17) ^ b.rotate_left(41))
    }
    pub fn next_u64(&mut self) -> u64 {
        let r = self.s[1].wrapping_mul(5).rotate_left(7).wrapping_mul(9);
        let t = self.s[1] << 17;
        self.s[2] ^= self.s[0];
        self.s[3] ^= self.s[1];
        self.s[1] ^= self.s[2];
        self.s[0] ^= self.s[3];
        self.s[2] ^= t;
        self.s[3] = self.s[3].rotate_left(45);
        r
    }
    pub fn next_u32(&mut self) -> u32 {
        (self.next_u64() >> 32) as u32
    }
    /// uniform in 0..n (n>0)
    pub fn below(&mut self, n: u64) -> u64 {
        if n == 0 {
            return 0;
        }
        ((u128::from(self.next_u64()) * u128::from(n)) >> 64) as u64
    }
    pub fn range(&mut self, lo: u64, hi_incl: u64) -> u64 {
        lo + self.below(hi_incl - lo + 1)
    }
    pub fn usize_below(&mut self, n: usize) -> usize {
        self.below(n as u64) as usize
    }
    pub fn chance(&mut self, num: u64, den: u64) -> bool {
        self.below(den) < num
    }
    pub fn pick<'a, T>(&mut self, v: &'a [T]) -> &'a T {
        &v[self.usize_below(v.len())]
    }
    /// pick an index according to integer weights
    pub fn weighted(&mut self, w: &[u32]) -> usize {
        let total: u64 = w.iter().map(|x| u64::from(*x)).sum();
        let mut r = self.below(total.max(1));
        for (i, x) in w.iter().enumerate() {
            if r < u64::from(*x) {
                return i;
            }
            r -= u64::from(*x);
        }
        w.len() - 1
    }
    pub fn fill(&mut self, buf: &mut [u8]) {
        for ch in buf.chunks_mut(8) {
            let v = self.next_u64().to_le_bytes();
            ch.copy_from_slice(&v[..ch.len()]);
        }
    }
}

// ---------------------------------------------------------------- JSON
#[derive(Clone, Debug, PartialEq)]
pub enum J {
    Null,
    Bool(bool),
    Int(i128),
    Num(f64),
    Str(String),
    Arr(Vec<J>),
    Obj(Vec<(String, J)>),
}

impl J {
    pub fn obj() -> J {
        J::Obj(Vec::new())
    }
    pub fn s(x: impl Into<String>) -> J {
        J::Str(x.into())
    }
    pub fn i(x: impl Into<i128>) -> J {
        J::Int(x.into())
    }
    pub fn u(x: u64) -> J {
        J::Int(i128::from(x))
    }
    pub fn set(mut self, k: &str, v: J) -> J {
        if let J::Obj(ref mut o) = self {
            if let Some(e) = o.iter_mut().find(|e| e.0 == k) {
                e.1 = v;
            } else {
                o.push((k.to_string(), v));
            }
        }
        self
    }
    pub fn put(&mut self, k: &str, v: J) {
        if let J::Obj(ref mut o) = self {
            if let Some(e) = o.iter_mut().find(|e| e.0 == k) {
                e.1 = v;
            } else {
                o.push((k.to_string(), v));
            }
        }
    }
    pub fn arr_of_str<I: IntoIterator<Item = S>, S: Into<String>>(it: I) -> J {
        J::Arr(it.into_iter().map(|s| J::Str(s.into())).collect())
    }
    pub fn dump(&self) -> String {
        let mut s = String::new();
        self.write(&mut s);
        s
    }
    fn write(&self, out: &mut String) {
        match self {
            J::Null => out.push_str("null"),
            J::Bool(b) => out.push_str(if *b { "true" } else { "false" }),
            J::Int(i) => {
                let _ = write!(out, "{}", i);
            }
            J::Num(f) => {
                if f.is_finite() {
                    let _ = write!(out, "{}", f);
                } else {
                    out.push_str("null");
                }
            }
            J::Str(s) => json_str(s, out),
            J::Arr(a) => {
                out.push('[');
                for (i, v) in a.iter().enumerate() {
                    if i > 0 {
                        out.push(',');
                    }
                    v.write(out);
                }
                out.push(']');
            }
            J::Obj(o) => {
                out.push('{');
                for (i, (k, v)) in o.iter().enumerate() {
                    if i > 0 {
                        out.push(',');
                    }
                    json_str(k, out);
                    out.push(':');
                    v.write(out);
                }
                out.push('}');
            }
        }
    }
}

fn json_str(s: &str, out: &mut String) {
    out.push('"');
    for c in s.chars() {
        match c {
            '"' => out.push_str("\\\""),
            '\\' => out.push_str("\\\\"),
            '\n' => out.push_str("\\n"),
            '\r' => out.push_str("\\r"),
            '\t' => out.push_str("\\t"),
            c if (c as u32) < 0x20 || c == '\u{7f}' => {
                let _ = write!(out, "\\u{:04x}", c as u32);
            }
            c if (c as u32) > 0x7e => {
                // escape all non-ASCII so that files stay plain ASCII
                let mut b = [0u16; 2];
                for u in c.encode_utf16(&mut b) {
                    let _ = write!(out, "\\u{:04x}", u);
                }
            }
            c => out.push(c),
        }
    }
    out.push('"');
}

pub fn hex(b: &[u8]) -> String {
    let mut s = String::with_capacity(b.len() * 2);
    for x in b {
        let _ = write!(s, "{:02x}", x);
    }
    s
}

/// printable rendering of a string that may contain anything
pub fn show_str(s: &str) -> String {
    let mut o = String::new();
    for c in s.chars() {
        if (' '..='~').contains(&c) && c != '\\' {
            o.push(c);
        } else {
            let _ = write!(o, "\\u{{{:x}}}", c as u32);
        }
    }
    o
}

pub fn show_units(u: &[u16]) -> String {
    let mut o = String::new();
    for &c in u {
        if (0x20..0x7f).contains(&c) && c != b'\\' as u16 {
            o.push(c as u8 as char);
        } else {
            let _ = write!(o, "\\u{:04x}", c);
        }
    }
    o
}

// ---------------------------------------------------------------- FNV-1a 64
#[derive(Clone, Copy)]
pub struct Fnv(pub u64);
impl Default for Fnv {
    fn default() -> Self {
        Fnv(0xcbf2_9ce4_8422_2325)
    }
}
impl Fnv {
    pub fn new() -> Self {
        Self::default()
    }
    pub fn bytes(&mut self, b: &[u8]) -> &mut Self {
        for x in b {
            self.0 ^= u64::from(*x);
            self.0 = self.0.wrapping_mul(0x0100_0000_01b3);
        }
        self
    }
    pub fn u64(&mut self, v: u64) -> &mut Self {
        self.bytes(&v.to_le_bytes())
    }
    pub fn str(&mut self, s: &str) -> &mut Self {
        self.bytes(s.as_bytes());
        self.bytes(&[0xff])
    }
    pub fn get(&self) -> u64 {
        self.0
    }
}

pub fn fnv_of(parts: &[&str]) -> u64 {
    let mut f = Fnv::new();
    for p in parts {
        f.str(p);
    }
    f.get()
}

// ---------------------------------------------------------------- SHA-256
pub struct Sha256 {
    h: [u32; 8],
    buf: [u8; 64],
    buflen: usize,
    total: u64,
}

const K: [u32; 64] = [
    0x428a2f98, 0x71374491, 0xb5c0fbcf, 0xe9b5dba5, 0x3956c25b, 0x59f111f1, 0x923f82a4, 0xab1c5ed5, 0xd807aa98,
    0x12835b01, 0x243185be, 0x550c7dc3, 0x72be5d74, 0x80deb1fe, 0x9bdc06a7, 0xc19bf174, 0xe49b69c1, 0xefbe4786,
    0x0fc19dc6, 0x240ca1cc, 0x2de92c6f, 0x4a7484aa, 0x5cb0a9dc, 0x76f988da, 0x983e5152, 0xa831c66d, 0xb00327c8,
    0xbf597fc7, 0xc6e00bf3, 0xd5a79147, 0x06ca6351, 0x14292967, 0x27b70a85, 0x2e1b2138, 0x4d2c6dfc, 0x53380d13,
    0x650a7354, 0x766a0abb, 0x81c2c92e, 0x92722c85, 0xa2bfe8a1, 0xa81a664b, 0xc24b8b70, 0xc76c51a3, 0xd192e819,
    0xd6990624, 0xf40e3585, 0x106aa070, 0x19a4c116, 0x1e376c08, 0x2748774c, 0x34b0bcb5, 0x391c0cb3, 0x4ed8aa4a,
    0x5b9cca4f, 0x682e6ff3, 0x748f82ee, 0x78a5636f, 0x84c87814, 0x8cc70208, 0x90befffa, 0xa4506ceb, 0xbef9a3f7,
    0xc67178f2,
];

impl Default for Sha256 {
    fn default() -> Self {
        Sha256 {
            h: [
                0x6a09e667, 0xbb67ae85, 0x3c6ef372, 0xa54ff53a, 0x510e527f, 0x9b05688c, 0x1f83d9ab, 0x5be0cd19,
            ],
            buf: [0; 64],
            buflen: 0,
            total: 0,
        }
    }
}

impl Sha256 {
    pub fn new() -> Self {
        Self::default()
    }
    fn block(&mut self, b: &[u8]) {
        let mut w = [0u32; 64];
        for i in 0..16 {
            w[i] = u32::from_be_bytes([b[i * 4], b[i * 4 + 1], b[i * 4 + 2], b[i * 4 + 3]]);
        }
        for i in 16..64 {
            let s0 = w[i - 15].rotate_right(7) ^ w[i - 15].rotate_right(18) ^ (w[i - 15] >> 3);
            let s1 = w[i - 2].rotate_right(17) ^ w[i - 2].rotate_right(19) ^ (w[i - 2] >> 10);
            w[i] = w[i - 16].wrapping_add(s0).wrapping_add(w[i - 7]).wrapping_add(s1);
        }
        let mut a = self.h;
        for i in 0..64 {
            let s1 = a[4].rotate_right(6) ^ a[4].rotate_right(11) ^ a[4].rotate_right(25);
            let ch = (a[4] & a[5]) ^ ((!a[4]) & a[6]);
            let t1 = a[7].wrapping_add(s1).wrapping_add(ch).wrapping_add(K[i]).wrapping_add(w[i]);
            let s0 = a[0].rotate_right(2) ^ a[0].rotate_right(13) ^ a[0].rotate_right(22);
            let maj = (a[0] & a[1]) ^ (a[0] & a[2]) ^ (a[1] & a[2]);
            let t2 = s0.wrapping_add(maj);
            a[7] = a[6];
            a[6] = a[5];
            a[5] = a[4];
            a[4] = a[3].wrapping_add(t1);
            a[3] = a[2];
            a[2] = a[1];
            a[1] = a[0];
            a[0] = t1.wrapping_add(t2);
        }
        for i in 0..8 {
            self.h[i] = self.h[i].wrapping_add(a[i]);
        }
    }
    pub fn update(&mut self, mut data: &[u8]) {
        self.total += data.len() as u64;
        if self.buflen > 0 {
            let n = (64 - self.buflen).min(data.len());
            self.buf[self.buflen..self.buflen + n].copy_from_slice(&data[..n]);
            self.buflen += n;
            data = &data[n..];
            if self.buflen == 64 {
                let b = self.buf;
                self.block(&b);
                self.buflen = 0;
            }
        }
        while data.len() >= 64 {
            let (b, rest) = data.split_at(64);
            self.block(b);
            data = rest;
        }
        if !data.is_empty() {
            self.buf[..data.len()].copy_from_slice(data);
            self.buflen = data.len();
        }
    }
    pub fn finish(mut self) -> [u8; 32] {
        let bits = self.total.wrapping_mul(8);
        let mut pad = vec![0x80u8];
        while (self.buflen + pad.len()) % 64 != 56 {
            pad.push(0);
        }
        pad.extend_from_slice(&bits.to_be_bytes());
        let total = self.total;
        self.update(&pad);
        self.total = total;
        let mut out = [0u8; 32];
        for i in 0..8 {
            out[i * 4..i * 4 + 4].copy_from_slice(&self.h[i].to_be_bytes());
        }
        out
    }
}

pub fn sha256_hex(data: &[u8]) -> String {
    let mut s = Sha256::new();
    s.update(data);
    hex(&s.finish())
}

#[cfg(test)]
mod tests {
    use super::*;
    #[test]
    fn sha_vectors() {
        assert_eq!(
            sha256_hex(b"abc"),
            "ba7816bf8f01cfea414140de5dae2223b00361a396177a9cb410ff61f20015ad"
        );
        assert_eq!(
            sha256_hex(b""),
            "e3b0c44298fc1c149afbf4c8996fb92427ae41e4649b934ca495991b7852b855"
        );
        let v = vec![b'a'; 1000];
        let mut s = Sha256::new();
        s.update(&v[..3]);
        s.update(&v[3..100]);
        s.update(&v[100..]);
        assert_eq!(
            hex(&s.finish()),
            "41edece42d63e8d9bf515a9ba6932e1c20cbc9f5a5d134645adb5db1b9737ea3"
        );
    }
}
