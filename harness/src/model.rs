//! Reference model: case-insensitive, case-preserving in-memory tree + per-handle byte array/cursor.
#![allow(dead_code)]

use crate::fatck;

#[derive(Clone, Copy, Debug, PartialEq, Eq, PartialOrd, Ord, Hash)]
pub enum EK {
    Ok,
    Io,
    UnexpectedEof,
    WriteZero,
    InvalidInput,
    NotFound,
    AlreadyExists,
    DirectoryIsNotEmpty,
    Corrupted,
    NotEnoughSpace,
    NameLength,
    NameChar,
    Other,
    Panic,
    Budget,
}

impl EK {
    pub fn name(self) -> &'static str {
        match self {
            EK::Ok => "Ok",
            EK::Io => "Io",
            EK::UnexpectedEof => "UnexpectedEof",
            EK::WriteZero => "WriteZero",
            EK::InvalidInput => "InvalidInput",
            EK::NotFound => "NotFound",
            EK::AlreadyExists => "AlreadyExists",
            EK::DirectoryIsNotEmpty => "DirectoryIsNotEmpty",
            EK::Corrupted => "CorruptedFileSystem",
            EK::NotEnoughSpace => "NotEnoughSpace",
            EK::NameLength => "InvalidFileNameLength",
            EK::NameChar => "UnsupportedFileNameCharacter",
            EK::Other => "Other",
            EK::Panic => "PANIC",
            EK::Budget => "BUDGET",
        }
    }
}

pub fn classify_err<T>(e: &fatfs::Error<T>) -> EK {
    match e {
        fatfs::Error::Io(_) => EK::Io,
        fatfs::Error::UnexpectedEof => EK::UnexpectedEof,
        fatfs::Error::WriteZero => EK::WriteZero,
        fatfs::Error::InvalidInput => EK::InvalidInput,
        fatfs::Error::NotFound => EK::NotFound,
        fatfs::Error::AlreadyExists => EK::AlreadyExists,
        fatfs::Error::DirectoryIsNotEmpty => EK::DirectoryIsNotEmpty,
        fatfs::Error::CorruptedFileSystem => EK::Corrupted,
        fatfs::Error::NotEnoughSpace => EK::NotEnoughSpace,
        fatfs::Error::InvalidFileNameLength => EK::NameLength,
        fatfs::Error::UnsupportedFileNameCharacter => EK::NameChar,
        _ => EK::Other,
    }
}

/// Independent name predicate (documented long-name character set, 1..=255 UTF-8 bytes).
/// Returns the set of error kinds that apply (empty = valid).
pub fn name_errors(name: &str) -> Vec<EK> {
    let mut v = Vec::new();
    if name.is_empty() || name.len() > 255 {
        v.push(EK::NameLength);
    }
    let mut bad = false;
    for c in name.chars() {
        let ok = match c {
            'a'..='z' | 'A'..='Z' | '0'..='9' => true,
            '$' | '%' | '\'' | '-' | '_' | '@' | '~' | '`' | '!' | '(' | ')' | '{' | '}' | '^' | '#' | '&' => true,
            '+' | ',' | ';' | '=' | '[' | ']' | '.' | ' ' => true,
            c if (c as u32) >= 0x80 && (c as u32) <= 0xFFFE => true, // U+FFFF is the long-name padding value
            _ => false,
        };
        if !ok {
            bad = true;
        }
    }
    if bad {
        v.push(EK::NameChar);
    }
    v
}

pub fn fold(s: &str, unicode: bool) -> Vec<char> {
    if unicode {
        s.chars().flat_map(char::to_uppercase).collect()
    } else {
        s.chars().map(|c| c.to_ascii_uppercase()).collect()
    }
}

/// 8.3 alias in display form, decoded the way a lossy OEM converter shows it
pub fn alias_display(sfn: &[u8; 11]) -> String {
    fatck::short_display(sfn)
        .iter()
        .map(|b| if *b < 0x80 { *b as char } else { '\u{FFFD}' })
        .collect()
}

#[derive(Clone, Debug, Default, PartialEq, Eq)]
pub struct Stamps {
    pub ctenth: u8,
    pub ctime: u16,
    pub cdate: u16,
    pub adate: u16,
    pub mtime: u16,
    pub mdate: u16,
    /// raw 32 bytes of the short entry (empty when unknown)
    pub raw: Vec<u8>,
}

impl Stamps {
    pub fn same_stamps(&self, o: &Stamps) -> bool {
        (self.ctenth, self.ctime, self.cdate, self.adate, self.mtime, self.mdate) == (o.ctenth, o.ctime, o.cdate, o.adate, o.mtime, o.mdate)
    }
    /// raw entries equal outside the timestamp fields
    pub fn same_raw_except_stamps(&self, o: &Stamps) -> bool {
        if self.raw.len() != 32 || o.raw.len() != 32 {
            return true;
        }
        (0..32).all(|i| (13..20).contains(&i) || (22..26).contains(&i) || self.raw[i] == o.raw[i])
    }
}

#[derive(Clone, Debug)]
pub struct MNode {
    pub name: String,
    pub is_dir: bool,
    pub parent: usize,
    pub children: Vec<usize>,
    pub content: Vec<u8>,
    pub alias: Option<[u8; 11]>,
    pub alive: bool,
    pub stamps: Option<Stamps>,
    /// id of the op that created this node
    pub born: u64,
}

#[derive(Clone, Debug)]
pub enum MH {
    File {
        node: usize,
        cur: u64,
        /// size / first cluster / stamps possibly not yet written back
        dirty: bool,
    },
    Dir {
        node: usize,
    },
}

#[derive(Clone, Debug)]
pub struct Model {
    pub nodes: Vec<MNode>,
    pub handles: Vec<Option<MH>>,
    pub unicode: bool,
}

#[derive(Clone, Debug, PartialEq, Eq)]
pub enum Look {
    Missing,
    Found(usize),
}

/// Result of resolving the directory part of a path
pub struct Resolved {
    /// directory node in which the final component lives
    pub dir: usize,
    /// final component (may be empty)
    pub last: String,
    /// directories traversed (node ids), including the start
    pub via: Vec<usize>,
    /// the path used dot entries
    pub used_dots: bool,
}

impl Model {
    pub fn new(unicode: bool, nhandles: usize) -> Self {
        Model {
            nodes: vec![MNode {
                name: String::new(),
                is_dir: true,
                parent: 0,
                children: Vec::new(),
                content: Vec::new(),
                alias: None,
                alive: true,
                stamps: None,
                born: 0,
            }],
            handles: vec![None; nhandles],
            unicode,
        }
    }

    pub fn path_of(&self, mut n: usize) -> String {
        let mut parts = Vec::new();
        while n != 0 {
            parts.push(self.nodes[n].name.clone());
            n = self.nodes[n].parent;
        }
        parts.reverse();
        format!("/{}", parts.join("/"))
    }

    pub fn matches(&self, child: usize, name: &str) -> bool {
        let f = fold(name, self.unicode);
        let c = &self.nodes[child];
        if fold(&c.name, self.unicode) == f {
            return true;
        }
        if let Some(a) = &c.alias {
            if fold(&alias_display(a), self.unicode) == f {
                return true;
            }
        }
        false
    }

    pub fn lookup(&self, dir: usize, name: &str) -> Look {
        for &c in &self.nodes[dir].children {
            if self.matches(c, name) {
                return Look::Found(c);
            }
        }
        Look::Missing
    }

    /// Split the way the crate documents: '/' separated, empty components ignored.
    pub fn comps(path: &str) -> Vec<&str> {
        path.split('/').filter(|c| !c.is_empty()).collect()
    }

    /// Resolve all but the last component. Err = set of applicable error kinds.
    pub fn resolve_parent(&self, start: usize, path: &str) -> Result<Resolved, Vec<EK>> {
        let comps = Self::comps(path);
        let mut dir = start;
        let mut via = vec![start];
        let mut used_dots = false;
        if comps.is_empty() {
            return Ok(Resolved {
                dir,
                last: String::new(),
                via,
                used_dots,
            });
        }
        for c in &comps[..comps.len() - 1] {
            dir = self.step(dir, c, &mut used_dots)?;
            via.push(dir);
        }
        Ok(Resolved {
            dir,
            last: comps[comps.len() - 1].to_string(),
            via,
            used_dots,
        })
    }

    /// directories a path walk reads before it fails (or all of them): they are searched, so with access-date stamping
    /// on their entries may be stamped even when the call fails
    pub fn walked_prefix(&self, start: usize, path: &str) -> Vec<usize> {
        let comps = Self::comps(path);
        let mut dir = start;
        let mut via = vec![start];
        let mut used = false;
        for c in comps.iter() {
            match self.step(dir, c, &mut used) {
                Ok(d) => {
                    dir = d;
                    via.push(d);
                }
                Err(_) => break,
            }
        }
        via
    }

    /// one directory step (component must name a directory)
    pub fn step(&self, dir: usize, c: &str, used_dots: &mut bool) -> Result<usize, Vec<EK>> {
        if c == "." || c == ".." {
            if dir == 0 {
                // the root directory has no dot entries
                return Err(vec![EK::NotFound]);
            }
            *used_dots = true;
            return Ok(if c == "." { dir } else { self.nodes[dir].parent });
        }
        match self.lookup(dir, c) {
            Look::Missing => Err(vec![EK::NotFound]),
            Look::Found(n) => {
                if self.nodes[n].is_dir {
                    Ok(n)
                } else {
                    Err(vec![EK::InvalidInput])
                }
            }
        }
    }

    pub fn is_ancestor_or_self(&self, anc: usize, mut n: usize) -> bool {
        loop {
            if n == anc {
                return true;
            }
            if n == 0 {
                return false;
            }
            n = self.nodes[n].parent;
        }
    }

    pub fn add_child(&mut self, dir: usize, name: &str, is_dir: bool, born: u64) -> usize {
        let id = self.nodes.len();
        self.nodes.push(MNode {
            name: name.to_string(),
            is_dir,
            parent: dir,
            children: Vec::new(),
            content: Vec::new(),
            alias: None,
            alive: true,
            stamps: None,
            born,
        });
        self.nodes[dir].children.push(id);
        id
    }

    pub fn detach(&mut self, n: usize) {
        let p = self.nodes[n].parent;
        self.nodes[p].children.retain(|c| *c != n);
    }

    pub fn remove_node(&mut self, n: usize) {
        self.detach(n);
        self.nodes[n].alive = false;
    }

    pub fn file_handle_on(&self, node: usize) -> Option<usize> {
        self.handles.iter().position(|h| matches!(h, Some(MH::File { node: n, .. }) if *n == node))
    }

    pub fn any_handle_on(&self, node: usize) -> bool {
        self.handles.iter().any(|h| match h {
            Some(MH::File { node: n, .. }) | Some(MH::Dir { node: n }) => *n == node,
            None => false,
        })
    }

    pub fn has_dirty_handle(&self, node: usize) -> bool {
        self.handles
            .iter()
            .any(|h| matches!(h, Some(MH::File { node: n, dirty: true, .. }) if *n == node))
    }

    /// canonical hash of the logical tree (names, kinds, contents)
    pub fn state_hash(&self) -> u64 {
        let mut f = crate::util::Fnv::new();
        self.hash_dir(0, &mut f);
        f.get()
    }

    fn hash_dir(&self, d: usize, f: &mut crate::util::Fnv) {
        let mut kids: Vec<usize> = self.nodes[d].children.clone();
        kids.sort_by(|a, b| self.nodes[*a].name.cmp(&self.nodes[*b].name));
        f.u64(kids.len() as u64);
        for k in kids {
            let n = &self.nodes[k];
            f.str(&n.name);
            f.u64(u64::from(n.is_dir));
            if n.is_dir {
                self.hash_dir(k, f);
            } else {
                f.u64(n.content.len() as u64);
                f.bytes(&n.content);
            }
        }
    }

    pub fn count_alive(&self) -> usize {
        self.nodes.iter().filter(|n| n.alive).count() - 1
    }
}

/// content byte written by op `op_id` at absolute file offset `off`
pub fn tag_byte(op_id: u64, off: u64) -> u8 {
    let x = op_id.wrapping_mul(0x9E37_79B9).wrapping_add(off.wrapping_mul(0x85EB_CA6B)) ^ (off >> 9);
    ((x >> 7) ^ x) as u8
}
