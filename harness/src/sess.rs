//! Session driver: executes an Op history against the real crate on a MonDev, in mount epochs,
//! while the monitors (model, fatck, write-log classifier, status-byte latch, ...) watch every call.
#![allow(dead_code)]

use std::collections::{BTreeMap, BTreeSet, HashMap};
use std::panic::{catch_unwind, AssertUnwindSafe};

use fatfs::{Read as _, Seek as _, Write as _};

use crate::checks;
use crate::clock::Clock;
use crate::dev::{Ev, EvKind, Image, MonDev};
use crate::fatck::{self, Decoded};
use crate::model::{classify_err, name_errors, tag_byte, Look, Model, EK, MH};
use crate::ops::{DirRef, Op};
use crate::util::{Fnv, Rng};

pub type Fs = fatfs::FileSystem<MonDev, Clock, fatfs::LossyOemCpConverter>;
pub type FDir<'a> = fatfs::Dir<'a, MonDev, Clock, fatfs::LossyOemCpConverter>;
pub type FFile<'a> = fatfs::File<'a, MonDev, Clock, fatfs::LossyOemCpConverter>;
pub type FEntry<'a> = fatfs::DirEntry<'a, MonDev, Clock, fatfs::LossyOemCpConverter>;

pub enum H<'a> {
    F(FFile<'a>),
    D(FDir<'a>),
}

#[derive(Clone, Debug)]
pub struct Violation {
    pub prop: &'static str,
    pub rule: String,
    pub detail: String,
    pub op_index: usize,
    pub sig: String,
}

#[derive(Clone, Debug)]
pub struct SessCfg {
    pub unicode: bool,
    pub update_accessed: bool,
    pub lib_walk: bool,
    pub nhandles: usize,
    pub short_dev: Option<u64>,
    pub start_day: u32,
    /// properties whose monitors are armed in this session
    pub props: BTreeSet<&'static str>,
    /// device-call budget per API call (None = generous default)
    pub budget: Option<u64>,
    /// mount a copy at every boundary to check the dirty report (C12) / remount view (C04)
    pub shadow_mount: bool,
    /// record every device write with payload + the durable file set after every call (C14)
    pub journal: bool,
    /// foreign images: diagnostics present before the first call (legal residue) are not held against the crate
    pub tolerate_baseline_diags: bool,
    /// the device refuses every write (read-only medium)
    pub fail_writes: bool,
    /// record an observation trace (C19)
    pub trace: bool,
    /// time provider that never advances (timestamps of rewrites do not change)
    pub frozen_clock: bool,
    /// which order of FsOptions builder calls the first mount uses (rotates with every epoch)
    pub opt_order: u8,
    /// C09 on random histories: fail the k-th device call (kinds mask) of the op with this index; the session ends there
    pub fault: Option<(usize, u64, u8)>,
}

impl SessCfg {
    pub fn all(unicode: bool) -> Self {
        let props: BTreeSet<&'static str> = ["C01", "C02", "C03", "C04", "C05", "C10", "C11", "C12", "C16", "C18"].into_iter().collect();
        SessCfg {
            unicode,
            update_accessed: false,
            lib_walk: true,
            nhandles: 6,
            short_dev: None,
            start_day: 100,
            props,
            budget: None,
            shadow_mount: false,
            journal: false,
            tolerate_baseline_diags: false,
            fail_writes: false,
            trace: false,
            frozen_clock: false,
            opt_order: 0,
            fault: None,
        }
    }
    pub fn on(&self, p: &str) -> bool {
        self.props.contains(p)
    }
}

#[derive(Clone, Debug, Default)]
pub struct Listed {
    pub name: Vec<u16>,
    pub short: Vec<u8>,
    pub is_dir: bool,
    pub len: u64,
    pub attr: u8,
    pub has_lfn: bool,
    pub stamps: crate::model::Stamps,
}

#[derive(Default)]
pub struct Out {
    pub ek: Option<EK>,
    pub io_code: Option<u32>,
    pub n: u64,
    pub data: Vec<u8>,
    pub listing: Vec<Listed>,
    pub flags: (bool, bool),
    pub stats: (u32, u32, u32),
    pub panic_msg: Option<String>,
    pub stored: bool,
}

#[derive(Default, Clone)]
pub struct Counters {
    pub api_calls: u64,
    pub dev_events: u64,
    pub dev_writes: u64,
    pub decodes: u64,
    pub lib_walks: u64,
    pub shadow_mounts: u64,
    pub epochs: u64,
    pub skipped_ops: u64,
    pub extents_checks: u64,
    pub stats_checks: u64,
    pub writes_classified: u64,
    pub op_outcomes: BTreeMap<(String, &'static str), u64>,
    pub total_dev_writes: u64,
    pub fsinfo_dev_writes: u64,
    pub fsinfo_exception_armed: u64,
    pub readonly_exceptions: u64,
    pub faults_fired: u64,
    pub faults_exempt: u64,
}

pub struct Outcome {
    pub trace: Vec<String>,
    pub journal: Vec<JOp>,
    pub history: Vec<Op>,
    pub violation: Option<Violation>,
    pub ops_run: usize,
    pub counters: Counters,
    pub distinct: Vec<u64>,
    pub final_img: Image,
    pub final_model_hash: u64,
}

pub fn enc_date(d: fatfs::Date) -> u16 {
    (d.year.wrapping_sub(1980) << 9) | (d.month << 5) | d.day
}
pub fn enc_dt(dt: fatfs::DateTime) -> (u16, u16, u8) {
    let t = dt.time;
    (enc_date(dt.date), (t.hour << 11) | (t.min << 5) | (t.sec / 2), ((t.sec % 2) * 100 + t.millis / 10) as u8)
}

/// does a listed entry carry the reference name `want`? (entries without a long name: ASCII case is not compared,
/// the display case depends on NT flags that only some builds can apply)
pub fn name_matches(l: &Listed, want: &[u16]) -> bool {
    if l.has_lfn {
        l.name == want
    } else {
        l.name.len() == want.len() && l.name.iter().zip(want.iter()).all(|(a, b)| a == b || (*a < 128 && *b < 128 && (*a as u8).eq_ignore_ascii_case(&(*b as u8))))
    }
}

pub fn listed_of(e: &FEntry<'_>) -> Listed {
    let lfn = e.long_file_name_as_ucs2_units();
    let short = e.short_file_name_as_bytes().to_vec();
    let (cd, ct, ctenth) = enc_dt(e.created());
    let (md, mt, _) = enc_dt(e.modified());
    #[cfg(not(feature = "v_noalloc"))]
    let short_units: Vec<u16> = e.file_name().encode_utf16().collect();
    #[cfg(feature = "v_noalloc")]
    let short_units: Vec<u16> = short.iter().map(|b| if *b < 0x80 { u16::from(*b) } else { 0xFFFD }).collect();
    Listed {
        name: match lfn {
            Some(u) => u.to_vec(),
            None => short_units,
        },
        has_lfn: lfn.is_some(),
        short,
        is_dir: e.is_dir(),
        len: e.len(),
        attr: e.attributes().bits(),
        stamps: crate::model::Stamps {
            ctenth,
            ctime: ct,
            cdate: cd,
            adate: enc_date(e.accessed()),
            mtime: mt,
            mdate: md,
            raw: Vec::new(),
        },
    }
}

thread_local! {
    pub static LAST_PANIC: std::cell::RefCell<Option<String>> = const { std::cell::RefCell::new(None) };
}

pub fn install_panic_hook() {
    std::panic::set_hook(Box::new(|info| {
        let loc = info.location().map(|l| l.file().to_string()).unwrap_or_default();
        let msg = if let Some(s) = info.payload().downcast_ref::<&str>() {
            (*s).to_string()
        } else if let Some(s) = info.payload().downcast_ref::<String>() {
            s.clone()
        } else if info.payload().downcast_ref::<crate::dev::BudgetTrip>().is_some() {
            "BUDGET".to_string()
        } else {
            "?".to_string()
        };
        let full_loc = info.location().map(|l| format!("{}:{}", l.file(), l.line())).unwrap_or_default();
        LAST_PANIC.with(|p| *p.borrow_mut() = Some(format!("{}|{}|{}", loc, msg, full_loc)));
    }));
}

/// (file, message class) of the last panic; message digits are stripped so signatures survive edits
pub fn take_panic() -> (String, String) {
    let raw = LAST_PANIC.with(|p| p.borrow_mut().take()).unwrap_or_default();
    let mut it = raw.splitn(3, '|');
    let file = it.next().unwrap_or("").to_string();
    let msg = it.next().unwrap_or("").to_string();
    let full = it.next().unwrap_or("").to_string();
    let file_short = file.rsplit('/').next().unwrap_or("").to_string();
    let class: String = msg.chars().filter(|c| !c.is_ascii_digit()).take(60).collect();
    (format!("{}:{}", file_short, class), format!("{} at {}", msg, full))
}

pub struct Sess<'c> {
    pub cfg: &'c SessCfg,
    pub dev: MonDev,
    pub clock: Clock,
    pub model: Model,
    pub vol_bytes: u64,
    pub violation: Option<Violation>,
    pub counters: Counters,
    pub distinct: BTreeSet<u64>,
    pub op_id: u64,
    pub cfg_class: u64,
    // per-epoch monitor state
    pub mount_img: Option<Image>,
    pub mount_status: u8,
    pub latch_changed: bool,
    pub stats_armed: bool,
    pub fsinfo_trusted: bool,
    pub prev: Option<Decoded>,
    /// model node -> decoded object id at the previous boundary
    pub prev_map: HashMap<usize, u32>,
    pub pc: usize,
    /// clock values handed out during the last call: (date,time,tenth) and dates
    pub last_clock: (Vec<(u16, u16, u8)>, Vec<u16>),
    /// model nodes (dirs and targets) the current op may touch (C11)
    pub touch: Vec<usize>,
    /// expected committed stamps per node once flushed (C18)
    pub stamp_exp: HashMap<usize, ExpStamps>,
    /// FS-info free count known to the library in this epoch (trusted at mount or stats() called)
    pub count_known: bool,
    pub history: Vec<Op>,
    pub exhausted: bool,
    pub journal: Vec<JOp>,
    pub trace: Vec<String>,
    /// node renamed/moved by the current op
    pub renamed: Option<usize>,
    /// structural diagnostics already present in a foreign image before the session touched it
    pub baseline_diags: Option<std::collections::HashSet<String>>,
}

/// One monitored call as seen by the crash-consistency checker (C14).
#[derive(Clone, Debug, Default)]
pub struct JOp {
    pub op: String,
    /// (is_flush, offset, payload) in issue order; writes carry their payload
    pub events: Vec<(bool, u64, Vec<u8>)>,
    /// files that are durable after this call: (path, content)
    pub durable: Vec<(String, Vec<u8>)>,
    /// paths (files, or directories = whole subtrees) this call modifies/renames/removes
    pub excluded: Vec<String>,
    /// the call is a successful flush / drop of a file handle
    pub flush_point: bool,
}

#[derive(Clone, Debug, Default)]
pub struct ExpStamps {
    pub created: Option<(u16, u16, u8)>,
    /// allowed (date, time) values
    pub modified: Option<Vec<(u16, u16)>>,
    pub accessed: Option<Vec<u16>>,
}

impl Sess<'_> {
    pub fn violate(&mut self, prop: &'static str, rule: &str, op: &Op, extra: &str, detail: String) {
        if self.violation.is_none() {
            self.violation = Some(Violation {
                prop,
                rule: rule.to_string(),
                detail,
                op_index: self.pc,
                sig: format!("{}|{}|{}|{}", prop, rule, op.kind(), extra),
            });
        }
    }
    fn note(&mut self, op: &Op, ek: EK) {
        *self.counters.op_outcomes.entry((op.kind().to_string(), ek.name())).or_insert(0) += 1;
        let mut f = Fnv::new();
        f.u64(self.cfg_class).str(op.kind()).str(ek.name()).u64(self.model.state_hash());
        self.distinct.insert(f.get());
    }
}

fn dirref_node(m: &Model, d: &DirRef) -> Option<usize> {
    match d {
        DirRef::Root => Some(0),
        DirRef::H(i) => match m.handles.get(*i) {
            Some(Some(MH::Dir { node })) => Some(*node),
            _ => None,
        },
    }
}

/// What the model expects of a namespace op.
pub struct Expect {
    /// applicable error kinds; empty => must succeed
    pub errs: Vec<EK>,
    /// directories (model nodes) whose contents / entries the op may touch
    pub dirs: Vec<usize>,
    /// target object nodes the op may touch
    pub targets: Vec<usize>,
    /// the op would need this many new slots in `dirs.last()` on success (0 = none)
    pub slots_needed: usize,
    pub new_dir: bool,
    /// resolved (parent, last component, existing node)
    pub parent: usize,
    pub last: String,
    pub existing: Option<usize>,
    pub dst_parent: usize,
    pub dst_last: String,
    pub dst_existing: Option<usize>,
    /// generator/precondition: op must be skipped
    pub skip: bool,
}

impl Default for Expect {
    fn default() -> Self {
        Expect {
            errs: vec![],
            dirs: vec![],
            targets: vec![],
            slots_needed: 0,
            new_dir: false,
            parent: 0,
            last: String::new(),
            existing: None,
            dst_parent: 0,
            dst_last: String::new(),
            dst_existing: None,
            skip: false,
        }
    }
}

fn lfn_slots(name: &str) -> usize {
    (name.encode_utf16().count() + 12) / 13 + 1
}

pub fn expect_ns(m: &Model, op: &Op) -> Expect {
    let mut x = Expect::default();
    match op {
        Op::CreateFile { dir, path, .. } | Op::CreateDir { dir, path, .. } | Op::OpenFile { dir, path, .. } | Op::OpenDir { dir, path, .. } | Op::Remove { dir, path } => {
            let Some(start) = dirref_node(m, dir) else {
                x.skip = true;
                return x;
            };
            let r = match m.resolve_parent(start, path) {
                Ok(r) => r,
                Err(e) => {
                    x.errs = e;
                    x.dirs = m.walked_prefix(start, path);
                    return x;
                }
            };
            x.dirs = r.via.clone();
            x.parent = r.dir;
            x.last = r.last.clone();
            let is_dot = r.last == "." || r.last == "..";
            let found = if is_dot {
                // dot entries as final component: only open_dir is inside the asserted domain
                if !matches!(op, Op::OpenDir { .. }) {
                    x.skip = true;
                    return x;
                }
                if r.dir == 0 {
                    None
                } else if r.last == "." {
                    Some(r.dir)
                } else {
                    Some(m.nodes[r.dir].parent)
                }
            } else if r.last.is_empty() {
                None
            } else {
                match m.lookup(r.dir, &r.last) {
                    Look::Found(n) => Some(n),
                    Look::Missing => None,
                }
            };
            x.existing = found;
            match op {
                Op::OpenFile { .. } => match found {
                    None => x.errs.push(EK::NotFound),
                    Some(n) if m.nodes[n].is_dir => x.errs.push(EK::InvalidInput),
                    Some(n) => {
                        if m.file_handle_on(n).is_some() {
                            x.skip = true;
                        }
                        x.targets.push(n);
                    }
                },
                Op::OpenDir { .. } => match found {
                    None => x.errs.push(EK::NotFound),
                    Some(n) if !m.nodes[n].is_dir => x.errs.push(EK::InvalidInput),
                    Some(n) => x.targets.push(n),
                },
                Op::CreateFile { .. } | Op::CreateDir { .. } => {
                    let want_dir = matches!(op, Op::CreateDir { .. });
                    match found {
                        Some(n) => {
                            if m.nodes[n].is_dir != want_dir {
                                x.errs.push(EK::InvalidInput);
                            } else {
                                if !want_dir && m.file_handle_on(n).is_some() {
                                    x.skip = true;
                                }
                                x.targets.push(n);
                            }
                        }
                        None => {
                            x.errs = name_errors(&r.last);
                            if x.errs.is_empty() {
                                x.slots_needed = lfn_slots(&r.last);
                                x.new_dir = want_dir;
                            }
                        }
                    }
                }
                Op::Remove { .. } => match found {
                    None => x.errs.push(EK::NotFound),
                    Some(n) => {
                        if m.any_handle_on(n) {
                            x.skip = true;
                        }
                        if m.nodes[n].is_dir && !m.nodes[n].children.is_empty() {
                            x.errs.push(EK::DirectoryIsNotEmpty);
                        }
                        x.targets.push(n);
                    }
                },
                _ => {}
            }
        }
        Op::Rename { sdir, src, ddir, dst } => {
            let (Some(s0), Some(d0)) = (dirref_node(m, sdir), dirref_node(m, ddir)) else {
                x.skip = true;
                return x;
            };
            let rs = m.resolve_parent(s0, src);
            let rd = m.resolve_parent(d0, dst);
            let mut errs: Vec<EK> = Vec::new();
            let mut src_node = None;
            match &rs {
                Err(e) => {
                    errs.extend(e.iter().copied());
                    x.dirs.extend(m.walked_prefix(s0, src));
                }
                Ok(r) => {
                    x.dirs.extend(r.via.iter().copied());
                    x.parent = r.dir;
                    x.last = r.last.clone();
                    if r.last == "." || r.last == ".." {
                        x.skip = true;
                        return x;
                    }
                    match if r.last.is_empty() { Look::Missing } else { m.lookup(r.dir, &r.last) } {
                        Look::Missing => errs.push(EK::NotFound),
                        Look::Found(n) => {
                            if m.any_handle_on(n) {
                                x.skip = true;
                            }
                            src_node = Some(n);
                            x.existing = Some(n);
                            x.targets.push(n);
                        }
                    }
                }
            }
            match &rd {
                Err(e) => {
                    errs.extend(e.iter().copied());
                    x.dirs.extend(m.walked_prefix(d0, dst));
                }
                Ok(r) => {
                    x.dirs.extend(r.via.iter().copied());
                    x.dst_parent = r.dir;
                    x.dst_last = r.last.clone();
                    if r.last == "." || r.last == ".." {
                        x.skip = true;
                        return x;
                    }
                    let found = if r.last.is_empty() { Look::Missing } else { m.lookup(r.dir, &r.last) };
                    match found {
                        Look::Found(n) => {
                            x.dst_existing = Some(n);
                            if Some(n) != src_node {
                                errs.push(EK::AlreadyExists);
                            }
                        }
                        Look::Missing => {
                            let ne = name_errors(&r.last);
                            if !ne.is_empty() {
                                errs.extend(ne);
                            } else if let Some(sn) = src_node {
                                if m.nodes[sn].is_dir && m.is_ancestor_or_self(sn, r.dir) {
                                    // moving a directory into its own subtree: an in-memory tree cannot do it.
                                    // Any non-I/O error is acceptable.
                                    errs.extend([EK::InvalidInput, EK::AlreadyExists, EK::NotFound, EK::Other, EK::Corrupted]);
                                }
                                x.slots_needed = lfn_slots(&r.last);
                            }
                        }
                    }
                }
            }
            x.errs = errs;
        }
        _ => {}
    }
    x.errs.sort();
    x.errs.dedup();
    x
}

/// Source of operations: either a recorded history or an online generator that sees the model.
pub trait OpSource {
    fn next(&mut self, model: &Model, geo: Option<&fatck::Geo>) -> Option<Op>;
}

pub struct VecSource {
    pub ops: Vec<Op>,
    pub i: usize,
}

impl VecSource {
    pub fn new(ops: Vec<Op>) -> Self {
        VecSource { ops, i: 0 }
    }
}

impl OpSource for VecSource {
    fn next(&mut self, _m: &Model, _g: Option<&fatck::Geo>) -> Option<Op> {
        let o = self.ops.get(self.i).cloned();
        self.i += 1;
        o
    }
}

/// Run one history. `img0` must hold a valid volume of `vol_bytes` bytes.
pub fn run_session(cfg: &SessCfg, img0: &Image, vol_bytes: u64, cfg_class: u64, src: &mut dyn OpSource) -> Outcome {
    let dev = MonDev::new(img0.clone());
    dev.set_vol_end(vol_bytes);
    if let Some(seed) = cfg.short_dev {
        dev.set_short(Some(Rng::new(seed)));
    }
    let mut s = Sess {
        cfg,
        dev,
        clock: Clock::new(cfg.start_day),
        model: Model::new(cfg.unicode, cfg.nhandles),
        vol_bytes,
        violation: None,
        counters: Counters::default(),
        distinct: BTreeSet::new(),
        op_id: 0,
        cfg_class,
        mount_img: None,
        mount_status: 0,
        latch_changed: false,
        stats_armed: false,
        fsinfo_trusted: false,
        prev: None,
        prev_map: HashMap::new(),
        pc: 0,
        last_clock: (Vec::new(), Vec::new()),
        touch: Vec::new(),
        stamp_exp: HashMap::new(),
        count_known: false,
        history: Vec::new(),
        exhausted: false,
        journal: Vec::new(),
        renamed: None,
        baseline_diags: None,
        trace: Vec::new(),
    };
    if cfg.journal {
        s.dev.set_logging(true, true);
    }
    if cfg.fail_writes {
        s.dev.0.borrow_mut().fail_writes = true;
    }
    if cfg.frozen_clock {
        s.clock.0.frozen.set(true);
    }
    // learn what is already on the volume (foreign / pre-populated images)
    checks::seed_model_from_image(&mut s);
    while !s.exhausted && s.violation.is_none() {
        run_epoch(&mut s, src, false);
    }
    if s.violation.is_none() {
        // closing epoch: mount once more, full checks, clean unmount
        let mut empty = VecSource::new(Vec::new());
        run_epoch(&mut s, &mut empty, true);
    }
    s.counters.total_dev_writes = s.dev.0.borrow().n_writes;
    s.counters.fsinfo_dev_writes = s.dev.0.borrow().n_writes_watch;
    Outcome {
        ops_run: s.pc,
        history: std::mem::take(&mut s.history),
        journal: std::mem::take(&mut s.journal),
        trace: std::mem::take(&mut s.trace),
        final_img: s.dev.snapshot(),
        final_model_hash: s.model.state_hash(),
        violation: s.violation,
        counters: s.counters,
        distinct: s.distinct.into_iter().collect(),
    }
}

fn mk_fs(s: &Sess) -> Result<Fs, fatfs::Error<crate::dev::DevError>> {
    s.dev.set_pos(0);
    // the option builder is part of the API: every order of the builder calls must give the same options
    let c = s.clock.clone();
    let a = s.cfg.update_accessed;
    let lossy = fatfs::LossyOemCpConverter::new();
    // `strict` only concerns the boot signature / jump bytes, which every volume used here has: both values must behave alike
    let st = s.cfg.opt_order % 12 < 6;
    let opts = match (s.cfg.opt_order % 6).wrapping_add(s.counters.epochs as u8) % 6 {
        0 if !a && st => fatfs::FsOptions::new().time_provider(c),
        1 => fatfs::FsOptions::new().update_accessed_date(a).time_provider(c).strict(st),
        2 => fatfs::FsOptions::new().strict(st).time_provider(c).update_accessed_date(a),
        3 => fatfs::FsOptions::new().strict(st).update_accessed_date(a).time_provider(c).oem_cp_converter(lossy),
        4 => fatfs::FsOptions::new().update_accessed_date(a).oem_cp_converter(lossy).time_provider(c).strict(st),
        _ => fatfs::FsOptions::new().update_accessed_date(a).strict(st).oem_cp_converter(lossy).time_provider(c),
    };
    fatfs::FileSystem::new(s.dev.handle(), opts)
}

fn budget_for(s: &Sess) -> u64 {
    s.cfg.budget.unwrap_or(4_000_000)
}

fn run_epoch(s: &mut Sess, src: &mut dyn OpSource, closing: bool) {
    s.counters.epochs += 1;
    s.dev.begin_call();
    s.dev.set_budget(Some(budget_for(s)));
    let mount_img = s.dev.snapshot();
    let fs = match catch_unwind(AssertUnwindSafe(|| mk_fs(s))) {
        Ok(Ok(fs)) => fs,
        Ok(Err(e)) => {
            let op = Op::Remount { how: 0 };
            s.violate("C04", "remount-failed", &op, classify_err(&e).name(), format!("FileSystem::new failed on the session's own image: {:?}", e));
            return;
        }
        Err(_) => {
            let (cls, full) = take_panic();
            let op = Op::Remount { how: 0 };
            s.violate("C04", "remount-panic", &op, &cls, format!("FileSystem::new panicked: {}", full));
            return;
        }
    };
    // mount must not write (C13 is decided elsewhere; here it protects the other monitors' baselines)
    let mlog = s.dev.take_log();
    if mlog.iter().any(|e| e.kind == EvKind::Write) && s.cfg.on("C11") {
        let op = Op::Remount { how: 0 };
        s.violate("C11", "write-during-mount", &op, "", "FileSystem::new issued a device write".into());
    }
    let g = match fatck::geo_of(&mount_img) {
        Ok(g) => g,
        Err(e) => {
            let op = Op::Remount { how: 0 };
            s.violate("C03", "geometry", &op, "", format!("independent BPB parse failed: {}", e));
            return;
        }
    };
    s.mount_status = mount_img.u8(g.status_off);
    s.latch_changed = false;
    s.stats_armed = false;
    s.stamp_exp.clear();
    s.fsinfo_trusted = match fatck::fsinfo(&mount_img, &g) {
        Some((cnt, _)) => cnt != 0xFFFF_FFFF && u64::from(cnt) <= g.total_clusters && s.mount_status & 1 == 0,
        None => false,
    };
    s.count_known = s.fsinfo_trusted;
    if g.fat_bits == 32 {
        let fo = g.fsinfo_sector * g.bps;
        s.dev.0.borrow_mut().watch = Some((fo, fo + g.bps));
    }
    s.mount_img = Some(mount_img);
    for h in s.model.handles.iter_mut() {
        *h = None;
    }
    let mut hs: Vec<Option<H<'_>>> = (0..s.cfg.nhandles).map(|_| None).collect();
    // baseline decode
    checks::post_op(s, &fs, &mut hs, &Op::Remount { how: 0 }, &[], None, true);
    let mut how_end = 0u8;
    while s.violation.is_none() {
        let geo = s.prev.as_ref().map(|p| p.g.clone());
        let Some(op) = src.next(&s.model, geo.as_ref()) else {
            s.exhausted = true;
            break;
        };
        s.history.push(op.clone());
        if let Op::Remount { how } = &op {
            how_end = *how;
            s.pc += 1;
            break;
        }
        step(s, &fs, &mut hs, &op);
        s.pc += 1;
    }
    if s.violation.is_some() {
        // do not run destructors of a possibly confused library state under monitors; just drop quietly
        s.dev.set_budget(Some(budget_for(s)));
        let _ = catch_unwind(AssertUnwindSafe(move || drop(hs)));
        let _ = catch_unwind(AssertUnwindSafe(move || drop(fs)));
        return;
    }
    // end of epoch: close all handles (each is an API-level event), then unmount / drop / abandon
    for i in 0..hs.len() {
        if hs[i].is_some() {
            let op = Op::Close { h: i };
            step(s, &fs, &mut hs, &op);
            if s.violation.is_some() {
                let _ = catch_unwind(AssertUnwindSafe(move || drop(hs)));
                let _ = catch_unwind(AssertUnwindSafe(move || drop(fs)));
                return;
            }
        }
    }
    drop(hs);
    let how = if closing { 0 } else { how_end % 3 };
    let op = Op::Remount { how };
    let pre = s.dev.snapshot();
    s.dev.begin_call();
    s.clock.begin_call();
    s.counters.api_calls += 1;
    let dev2 = s.dev.handle();
    let journal_on = s.cfg.journal;
    let r = catch_unwind(AssertUnwindSafe(|| match how {
        0 => fs.unmount().map_err(|e| classify_err(&e)),
        1 => {
            drop(fs);
            Ok(())
        }
        _ => {
            // abandoned session: the file system object is destroyed without leaking it, but whatever its
            // destructor writes is discarded - the storage keeps the bytes it had at the moment of abandonment
            let snap = dev2.snapshot();
            let counted = dev2.0.borrow().n_writes;
            let counted_w = dev2.0.borrow().n_writes_watch;
            dev2.set_logging(false, false);
            drop(fs);
            dev2.with_img_mut(|im| *im = snap);
            dev2.0.borrow_mut().n_writes = counted;
            dev2.0.borrow_mut().n_writes_watch = counted_w;
            dev2.set_logging(true, journal_on);
            Ok(())
        }
    }));
    let log = s.dev.take_log();
    match r {
        Err(_) => {
            let (cls, full) = take_panic();
            s.violate("C04", "unmount-panic", &op, &cls, format!("unmount/drop panicked: {}", full));
        }
        Ok(Err(ek)) => {
            s.violate("C04", "unmount-error", &op, ek.name(), format!("unmount returned {:?} without any injected fault", ek));
        }
        Ok(Ok(())) => {
            if s.cfg.on("C13") {
                checks::check_readonly_writes(s, &op, &log, true);
            }
            if s.cfg.journal {
                journal_push(s, op.show(), &log, Vec::new(), false);
            }
            checks::after_unmount(s, &pre, &log, how, &op);
        }
    }
}

/// Execute one op under the monitors.
fn step<'f>(s: &mut Sess, fs: &'f Fs, hs: &mut Vec<Option<H<'f>>>, op: &Op) {
    // model expectation / preconditions
    let exp = match op {
        Op::CreateFile { .. } | Op::CreateDir { .. } | Op::OpenFile { .. } | Op::OpenDir { .. } | Op::Remove { .. } | Op::Rename { .. } => Some(expect_ns(&s.model, op)),
        _ => None,
    };
    if let Some(x) = &exp {
        if x.skip {
            s.counters.skipped_ops += 1;
            return;
        }
    }
    // handle-referencing ops on empty / wrong slots are skipped (keeps every subsequence runnable)
    let handle_ok = match op {
        Op::Read { h, .. } | Op::Write { h, .. } | Op::Seek { h, .. } | Op::Truncate { h } | Op::Extents { h } | Op::Flush { h } | Op::SetTimes { h, .. } => {
            matches!(s.model.handles.get(*h), Some(Some(MH::File { .. })))
        }
        Op::Close { h } => matches!(s.model.handles.get(*h), Some(Some(_))),
        Op::List { dir } => dirref_node(&s.model, dir).is_some(),
        _ => true,
    };
    if !handle_ok {
        s.counters.skipped_ops += 1;
        return;
    }
    // a result slot that is occupied is closed first (as its own monitored call)
    let slot = match op {
        Op::CreateFile { slot, .. } | Op::CreateDir { slot, .. } | Op::OpenFile { slot, .. } | Op::OpenDir { slot, .. } => *slot,
        _ => None,
    };
    if let Some(i) = slot {
        if i >= hs.len() {
            s.counters.skipped_ops += 1;
            return;
        }
        if hs[i].is_some() {
            // would the close invalidate the op's own directory reference? then skip
            let uses = match op {
                Op::CreateFile { dir, .. } | Op::CreateDir { dir, .. } | Op::OpenFile { dir, .. } | Op::OpenDir { dir, .. } => *dir == DirRef::H(i),
                _ => false,
            };
            if uses {
                s.counters.skipped_ops += 1;
                return;
            }
            let c = Op::Close { h: i };
            step(s, fs, hs, &c);
            if s.violation.is_some() {
                return;
            }
        }
    }
    s.op_id += 1;
    let op_id = s.op_id;
    let pre = s.dev.snapshot();
    s.dev.begin_call();
    s.clock.begin_call();
    s.counters.api_calls += 1;
    let faulted = match s.cfg.fault {
        Some((at, k, kinds)) if at == s.pc => {
            s.dev.set_fault(Some(crate::dev::FaultPlan { k, kinds, code: 0xF000 + (k as u32 & 0xFFF) }));
            s.dev.set_budget(Some(2_000_000));
            Some(k)
        }
        _ => None,
    };
    let model_ro = &s.model;
    let r = catch_unwind(AssertUnwindSafe(|| exec(fs, hs, op, op_id, model_ro)));
    if let Some(k) = faulted {
        let fired = s.dev.fired();
        let tripped = s.dev.tripped();
        s.dev.set_fault(None);
        s.dev.set_budget(Some(budget_for(s)));
        if let Some(f) = fired {
            // the history ends here: after a storage error nothing further is specified
            s.exhausted = true;
            s.counters.faults_fired += 1;
            let what = format!("{}: device {} #{} of the call failed (offset {})", op.show(), f.kind.name(), k, f.off);
            match &r {
                Err(_) => {
                    let (cls, full) = take_panic();
                    if tripped {
                        s.violate("C09", "hang", op, f.kind.name(), format!("{}: the call did not terminate within the device-call budget", what));
                    } else {
                        s.violate("C09", "panic", op, &cls, format!("{}: the call panicked: {}", what, full));
                    }
                }
                Ok(o) => {
                    let want = 0xF000 + (k as u32 & 0xFFF);
                    if f.in_drop {
                        s.counters.faults_exempt += 1;
                    } else if o.ek == Some(EK::Io) && o.io_code == Some(want) {
                    } else if o.ek.is_none() {
                        s.violate("C09", "swallowed", op, f.kind.name(), format!("{}: the call returned Ok", what));
                    } else {
                        s.violate("C09", "masked", op, &format!("{}-{}", f.kind.name(), o.ek.map_or("?", |e| e.name())), format!("{}: the call returned {:?} (io code {:?})", what, o.ek.map(|e| e.name()), o.io_code));
                    }
                }
            }
            // destructors must still terminate
            let _ = s.dev.take_log();
            return;
        }
    }
    let log = s.dev.take_log();
    s.last_clock = s.clock.take_log();
    s.counters.dev_events += log.len() as u64;
    if s.cfg.on("C13") {
        checks::check_readonly_writes(s, op, &log, false);
        if s.violation.is_some() {
            return;
        }
    }
    let out = match r {
        Ok(o) => o,
        Err(_) => {
            let (cls, full) = take_panic();
            let prop = primary_prop(s.cfg, op);
            s.note(op, EK::Panic);
            s.violate(prop, "panic", op, &cls, format!("{} panicked: {}", op.show(), full));
            return;
        }
    };
    let ek = out.ek.unwrap_or(EK::Ok);
    if s.cfg.trace {
        let mut line = format!("{} => {} n={} data={:016x}", op.show(), ek.name(), out.n, Fnv::new().bytes(&out.data).get());
        for l in &out.listing {
            // only API that exists in every build: the long name units if any, the raw short name bytes
            let ln = if l.has_lfn { crate::util::show_units(&l.name) } else { "-".to_string() };
            line.push_str(&format!(" [{}|{}|{}|{}|{:#x}|{:?}]", ln, crate::util::hex(&l.short), l.is_dir, l.len, l.attr, (l.stamps.cdate, l.stamps.ctime, l.stamps.ctenth, l.stamps.adate, l.stamps.mdate, l.stamps.mtime)));
        }
        if matches!(op, Op::Stats) {
            line.push_str(&format!(" stats={:?}", out.stats));
        }
        if matches!(op, Op::StatusFlags) {
            line.push_str(&format!(" flags={:?}", out.flags));
        }
        s.trace.push(line);
    }
    s.note(op, ek);
    if ek == EK::Io {
        let prop = primary_prop(s.cfg, op);
        s.violate(prop, "io-error-without-fault", op, &format!("{:?}", out.io_code), format!("{} returned an I/O error (code {:?}) although the device reported none", op.show(), out.io_code));
        return;
    }
    let excl_pre: Vec<String> = if s.cfg.journal { journal_excluded(s, op, exp.as_ref()) } else { Vec::new() };
    // C14 speaks about file handles: dropping a directory handle (a handle on the fixed root has nothing to flush at
    // all) is not a flush point
    let closes_file = match op {
        Op::Close { h } => matches!(s.model.handles.get(*h), Some(Some(MH::File { .. }))),
        _ => true,
    };
    checks::judge(s, fs, hs, op, exp.as_ref(), &out, &pre, &log);
    if s.cfg.journal {
        // flush or drop of a file handle (a handle that is not stored is dropped inside the call)
        let flush_point = ek == EK::Ok && closes_file && matches!(op, Op::Flush { .. } | Op::Close { .. } | Op::CreateFile { slot: None, .. } | Op::OpenFile { slot: None, .. });
        journal_push(s, op.show(), &log, excl_pre, flush_point);
    }
    if s.violation.is_some() {
        return;
    }
    checks::post_op(s, fs, hs, op, &log, Some(&pre), false);
}

/// paths whose durability is not asserted while `op` runs (computed on the pre-call model)
fn journal_excluded(s: &Sess, op: &Op, exp: Option<&Expect>) -> Vec<String> {
    let mut v = Vec::new();
    match op {
        Op::Write { h, .. } | Op::Truncate { h } | Op::Flush { h } | Op::Close { h } | Op::SetTimes { h, .. } | Op::Read { h, .. } => {
            if let Some(Some(MH::File { node, .. })) = s.model.handles.get(*h) {
                v.push(s.model.path_of(*node));
            }
        }
        Op::Remove { .. } | Op::Rename { .. } => {
            if let Some(x) = exp {
                if let Some(n) = x.existing {
                    v.push(s.model.path_of(n));
                }
            }
        }
        _ => {}
    }
    v
}

fn journal_push(s: &mut Sess, op: String, log: &[Ev], excluded: Vec<String>, flush_point: bool) {
    let mut events = Vec::new();
    for e in log {
        match e.kind {
            EvKind::Write if e.ok && e.len > 0 => events.push((false, e.off, e.payload.clone().unwrap_or_default())),
            EvKind::Flush if e.ok => events.push((true, 0, Vec::new())),
            _ => {}
        }
    }
    let mut durable = Vec::new();
    for (i, n) in s.model.nodes.iter().enumerate() {
        if i == 0 || !n.alive || n.is_dir {
            continue;
        }
        if s.model.has_dirty_handle(i) {
            continue;
        }
        durable.push((s.model.path_of(i), n.content.clone()));
    }
    s.journal.push(JOp { op, events, durable, excluded, flush_point });
}

pub fn primary_prop(cfg: &SessCfg, op: &Op) -> &'static str {
    let file_op = matches!(op, Op::Read { .. } | Op::Write { .. } | Op::Seek { .. } | Op::Truncate { .. } | Op::Flush { .. });
    if file_op && cfg.on("C02") {
        "C02"
    } else if cfg.on("C01") {
        "C01"
    } else {
        cfg.props.iter().next().copied().unwrap_or("C01")
    }
}

fn with_dir<'f, R>(fs: &'f Fs, hs: &[Option<H<'f>>], d: &DirRef, f: impl FnOnce(&FDir<'f>) -> R) -> Option<R> {
    match d {
        DirRef::Root => {
            let r = fs.root_dir();
            Some(f(&r))
        }
        DirRef::H(i) => match hs.get(*i) {
            Some(Some(H::D(d))) => Some(f(d)),
            _ => None,
        },
    }
}

fn err_out<T>(e: &fatfs::Error<crate::dev::DevError>) -> (Option<EK>, Option<u32>, Option<T>) {
    let code = if let fatfs::Error::Io(d) = e { Some(d.code) } else { None };
    (Some(classify_err(e)), code, None)
}

pub fn exec<'f>(fs: &'f Fs, hs: &mut Vec<Option<H<'f>>>, op: &Op, op_id: u64, model: &Model) -> Out {
    let mut out = Out::default();
    macro_rules! fail {
        ($e:expr) => {{
            let e = $e;
            out.ek = Some(classify_err(&e));
            if let fatfs::Error::Io(d) = &e {
                out.io_code = Some(d.code);
            }
        }};
    }
    match op {
        Op::CreateFile { dir, path, slot } | Op::OpenFile { dir, path, slot } => {
            let create = matches!(op, Op::CreateFile { .. });
            let r = with_dir(fs, hs, dir, |d| if create { d.create_file(path) } else { d.open_file(path) });
            match r {
                Some(Ok(f)) => {
                    if let Some(i) = slot {
                        hs[*i] = Some(H::F(f));
                        out.stored = true;
                    }
                }
                Some(Err(e)) => fail!(e),
                None => {}
            }
        }
        Op::CreateDir { dir, path, slot } | Op::OpenDir { dir, path, slot } => {
            let create = matches!(op, Op::CreateDir { .. });
            let r = with_dir(fs, hs, dir, |d| if create { d.create_dir(path) } else { d.open_dir(path) });
            match r {
                Some(Ok(f)) => {
                    if let Some(i) = slot {
                        hs[*i] = Some(H::D(f));
                        out.stored = true;
                    }
                }
                Some(Err(e)) => fail!(e),
                None => {}
            }
        }
        Op::Remove { dir, path } => {
            if let Some(Err(e)) = with_dir(fs, hs, dir, |d| d.remove(path)) {
                fail!(e);
            }
        }
        Op::Rename { sdir, src, ddir, dst } => {
            let root;
            let dd: Option<&FDir<'f>> = match ddir {
                DirRef::Root => {
                    root = fs.root_dir();
                    Some(&root)
                }
                DirRef::H(i) => match hs.get(*i) {
                    Some(Some(H::D(d))) => Some(d),
                    _ => None,
                },
            };
            if let Some(dd) = dd {
                if let Some(Err(e)) = with_dir(fs, hs, sdir, |d| d.rename(src, dd, dst)) {
                    fail!(e);
                }
            }
        }
        Op::List { dir } => {
            let r = with_dir(fs, hs, dir, |d| {
                let mut v = Vec::new();
                for e in d.iter() {
                    match e {
                        Ok(e) => v.push(listed_of(&e)),
                        Err(e) => return Err(e),
                    }
                }
                Ok(v)
            });
            match r {
                Some(Ok(v)) => out.listing = v,
                Some(Err(e)) => fail!(e),
                None => {}
            }
        }
        Op::Read { h, len } => {
            if let Some(Some(H::F(f))) = hs.get_mut(*h) {
                let mut buf = vec![0u8; *len];
                match f.read(&mut buf) {
                    Ok(n) => {
                        out.n = n as u64;
                        buf.truncate(n.min(*len));
                        out.data = buf;
                    }
                    Err(e) => fail!(e),
                }
            }
        }
        Op::Write { h, len } => {
            let cur = match model.handles.get(*h) {
                Some(Some(MH::File { cur, .. })) => *cur,
                _ => 0,
            };
            if let Some(Some(H::F(f))) = hs.get_mut(*h) {
                let buf: Vec<u8> = (0..*len as u64).map(|i| tag_byte(op_id, cur + i)).collect();
                match f.write(&buf) {
                    Ok(n) => out.n = n as u64,
                    Err(e) => fail!(e),
                }
            }
        }
        Op::Seek { h, whence, off } => {
            if let Some(Some(H::F(f))) = hs.get_mut(*h) {
                let sf = match whence % 3 {
                    0 => fatfs::SeekFrom::Start(*off as u64),
                    1 => fatfs::SeekFrom::Current(*off),
                    _ => fatfs::SeekFrom::End(*off),
                };
                match f.seek(sf) {
                    Ok(p) => out.n = p,
                    Err(e) => fail!(e),
                }
            }
        }
        Op::Truncate { h } => {
            if let Some(Some(H::F(f))) = hs.get_mut(*h) {
                if let Err(e) = f.truncate() {
                    fail!(e);
                }
            }
        }
        Op::Extents { h } => {
            if let Some(Some(H::F(f))) = hs.get_mut(*h) {
                let mut total = 0u64;
                for e in f.extents() {
                    match e {
                        Ok(x) => total += u64::from(x.size),
                        Err(e) => fail!(e),
                    }
                }
                out.n = total;
            }
        }
        Op::Flush { h } => {
            if let Some(Some(H::F(f))) = hs.get_mut(*h) {
                if let Err(e) = f.flush() {
                    fail!(e);
                }
            }
        }
        Op::Close { h } => {
            if let Some(x) = hs.get_mut(*h) {
                *x = None;
            }
        }
        Op::SetTimes { h, which, date, time, tenth } => {
            if let Some(Some(H::F(f))) = hs.get_mut(*h) {
                let d = fatfs::Date::new((date >> 9) + 1980, (date >> 5) & 0xF, date & 0x1F);
                let sec = (time & 0x1F) * 2 + u16::from(*tenth / 100);
                let t = fatfs::Time::new(time >> 11, (time >> 5) & 0x3F, sec, u16::from(*tenth % 100) * 10);
                match which % 3 {
                    0 => f.set_created(fatfs::DateTime::new(d, t)),
                    1 => f.set_modified(fatfs::DateTime::new(d, t)),
                    _ => f.set_accessed(d),
                }
            }
        }
        Op::Stats => match fs.stats() {
            Ok(st) => out.stats = (st.free_clusters(), st.total_clusters(), st.cluster_size()),
            Err(e) => fail!(e),
        },
        Op::StatusFlags => match fs.read_status_flags() {
            Ok(fl) => out.flags = (fl.dirty(), fl.io_error()),
            Err(e) => fail!(e),
        },
        Op::Label => match fs.read_volume_label_from_root_dir_as_bytes() {
            Ok(l) => {
                out.data = l.map(|x| x.to_vec()).unwrap_or_default();
                out.n = fs.volume_id() as u64;
            }
            Err(e) => fail!(e),
        },
        Op::Remount { .. } => {}
    }
    let _ = err_out::<()>;
    out
}

/// helper for the monitors: (first cluster, size, device extents) of a live file handle
pub fn handle_extents(f: &mut FFile<'_>) -> Result<Vec<(u64, u32)>, EK> {
    let mut v = Vec::new();
    for e in f.extents() {
        match e {
            Ok(x) => v.push((x.offset, x.size)),
            Err(e) => return Err(classify_err(&e)),
        }
    }
    Ok(v)
}

pub type Overrides = HashMap<u64, (u32, u32)>;
pub type EvLog = [Ev];
