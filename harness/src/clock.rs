//! Deterministic, strictly increasing time provider that logs every value it hands out.
#![allow(dead_code)]

use std::cell::{Cell, RefCell};
use std::rc::Rc;

#[derive(Debug)]
pub struct ClockState {
    /// days since 1980-01-01
    pub day: Cell<u32>,
    pub tick: Cell<u32>,
    /// (date word, time word, tenths) of every value handed out since the last `begin_call`
    pub log: RefCell<Vec<(u16, u16, u8)>>,
    pub date_log: RefCell<Vec<u16>>,
    pub handouts: Cell<u64>,
    /// a clock that always returns the same instant (like NullTimeProvider): timestamps never change
    pub frozen: Cell<bool>,
}

#[derive(Debug, Clone)]
pub struct Clock(pub Rc<ClockState>);

pub const MAX_DAY: u32 = 46_751; // 2107-12-31

pub fn civil_from_days(days: u32) -> (u16, u16, u16) {
    // days since 1980-01-01
    let mut y = 1980u32;
    let mut d = days;
    loop {
        let leap = (y % 4 == 0 && y % 100 != 0) || y % 400 == 0;
        let n = if leap { 366 } else { 365 };
        if d < n {
            break;
        }
        d -= n;
        y += 1;
    }
    let leap = (y % 4 == 0 && y % 100 != 0) || y % 400 == 0;
    let ml = [31, if leap { 29 } else { 28 }, 31, 30, 31, 30, 31, 31, 30, 31, 30, 31];
    let mut m = 0usize;
    while d >= ml[m] {
        d -= ml[m];
        m += 1;
    }
    (y as u16, m as u16 + 1, d as u16 + 1)
}

pub fn enc_date(y: u16, m: u16, d: u16) -> u16 {
    ((y - 1980) << 9) | (m << 5) | d
}

pub fn enc_time(h: u16, mi: u16, s: u16, ms: u16) -> (u16, u8) {
    ((h << 11) | (mi << 5) | (s / 2), ((s % 2) * 100 + ms / 10) as u8)
}

impl Clock {
    pub fn new(start_day: u32) -> Self {
        Clock(Rc::new(ClockState {
            day: Cell::new(start_day.min(MAX_DAY - 1)),
            tick: Cell::new(0),
            log: RefCell::new(Vec::new()),
            date_log: RefCell::new(Vec::new()),
            handouts: Cell::new(0),
            frozen: Cell::new(false),
        }))
    }
    /// start of an API call: next day, tick 0, logs cleared
    pub fn begin_call(&self) {
        let s = &self.0;
        s.log.borrow_mut().clear();
        s.date_log.borrow_mut().clear();
        if s.frozen.get() {
            s.tick.set(0);
            return;
        }
        let d = s.day.get() + 1;
        s.day.set(if d >= MAX_DAY { 1 } else { d });
        s.tick.set(0);
        s.log.borrow_mut().clear();
        s.date_log.borrow_mut().clear();
    }
    pub fn take_log(&self) -> (Vec<(u16, u16, u8)>, Vec<u16>) {
        (
            std::mem::take(&mut *self.0.log.borrow_mut()),
            std::mem::take(&mut *self.0.date_log.borrow_mut()),
        )
    }
    fn now(&self) -> ((u16, u16, u16), (u16, u16, u16, u16)) {
        let s = &self.0;
        let t = s.tick.get();
        if !s.frozen.get() {
            s.tick.set((t + 1) % 40_000);
        }
        s.handouts.set(s.handouts.get() + 1);
        let secs = t * 2 + 1; // odd seconds exercise the 10ms field
        let h = (secs / 3600) as u16;
        let mi = ((secs / 60) % 60) as u16;
        let sec = (secs % 60) as u16;
        let ms = ((t * 37) % 1000) as u16;
        (civil_from_days(s.day.get()), (h, mi, sec, ms))
    }
}

impl fatfs::TimeProvider for Clock {
    fn get_current_date(&self) -> fatfs::Date {
        let ((y, m, d), _) = self.now();
        self.0.date_log.borrow_mut().push(enc_date(y, m, d));
        fatfs::Date::new(y, m, d)
    }
    fn get_current_date_time(&self) -> fatfs::DateTime {
        let ((y, m, d), (h, mi, s, ms)) = self.now();
        let (tw, tenth) = enc_time(h, mi, s, ms);
        self.0.log.borrow_mut().push((enc_date(y, m, d), tw, tenth));
        fatfs::DateTime::new(fatfs::Date::new(y, m, d), fatfs::Time::new(h, mi, s, ms))
    }
}
