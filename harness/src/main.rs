//! fatfs-mon: runtime monitors for rust-fatfs (see /verif/DESIGN.md).

mod build;
mod checks;
mod clock;
mod dev;
mod fatck;
mod gen;
mod model;
mod ops;
mod sess;
mod util;
mod vol;
mod modes;

use std::collections::HashMap;

pub struct Args {
    pub mode: String,
    pub kv: HashMap<String, String>,
}

impl Args {
    pub fn get(&self, k: &str) -> Option<&str> {
        self.kv.get(k).map(|s| s.as_str())
    }
    pub fn u64(&self, k: &str, d: u64) -> u64 {
        self.get(k).and_then(|v| v.parse().ok()).unwrap_or(d)
    }
    pub fn str(&self, k: &str, d: &str) -> String {
        self.get(k).unwrap_or(d).to_string()
    }
    pub fn flag(&self, k: &str) -> bool {
        self.get(k).map_or(false, |v| v != "0" && v != "false")
    }
    pub fn shard(&self) -> (u64, u64) {
        let s = self.str("shard", "0/1");
        let mut it = s.split('/');
        let i = it.next().and_then(|x| x.parse().ok()).unwrap_or(0);
        let n = it.next().and_then(|x| x.parse().ok()).unwrap_or(1);
        (i, n)
    }
}

/// A logger that renders every record it is given (and throws the text away): an application that enables logging makes
/// the crate evaluate the arguments of its warn!/error! calls, which is code like any other.
struct RenderingLogger;

impl log::Log for RenderingLogger {
    fn enabled(&self, _m: &log::Metadata) -> bool {
        true
    }
    fn log(&self, r: &log::Record) {
        let s = format!("{} {}", r.target(), r.args());
        std::hint::black_box(s.len());
    }
    fn flush(&self) {}
}

static LOGGER: RenderingLogger = RenderingLogger;

fn main() {
    let _ = log::set_logger(&LOGGER);
    log::set_max_level(log::LevelFilter::Warn);
    let argv: Vec<String> = std::env::args().collect();
    if argv.len() < 2 {
        eprintln!("usage: fatfs-mon <mode> [--key value]...");
        std::process::exit(2);
    }
    let mut kv = HashMap::new();
    let mut i = 2;
    while i < argv.len() {
        if let Some(k) = argv[i].strip_prefix("--") {
            if i + 1 < argv.len() && !argv[i + 1].starts_with("--") {
                kv.insert(k.to_string(), argv[i + 1].clone());
                i += 2;
            } else {
                kv.insert(k.to_string(), "1".to_string());
                i += 1;
            }
        } else {
            i += 1;
        }
    }
    let args = Args { mode: argv[1].clone(), kv };
    sess::install_panic_hook();
    let res = modes::run(&args);
    let out = res.dump();
    if let Some(p) = args.get("out") {
        std::fs::write(p, &out).expect("write result");
    } else {
        println!("{}", out);
    }
}
