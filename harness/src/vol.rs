//! Volume configurations and creation of fresh volumes through the crate's own formatter.
#![allow(dead_code)]

use crate::dev::{Image, MonDev};
use crate::util::{Rng, J};

#[derive(Clone, Debug, PartialEq, Eq, Hash)]
pub struct VolCfg {
    /// requested FAT width 12/16/32
    pub fat: u8,
    pub bps: u16,
    pub spc: u8,
    pub nfats: u8,
    pub root_entries: u16,
    /// approximate number of data clusters wanted
    pub clusters: u32,
    /// extra device bytes after the declared end of the volume (sentinel filled)
    pub extra: u32,
    /// fill unwritten data-area pages with a non-zero garbage byte
    pub garbage: bool,
    /// sectors after the last whole cluster (a partial cluster that must never be used)
    pub slack: u8,
    /// the whole device (FAT area, reserved sectors, root directory included) holds garbage before formatting
    pub used_device: bool,
}

impl VolCfg {
    pub fn label(&self) -> String {
        format!(
            "fat{}-bps{}-spc{}-f{}-re{}-cl{}{}{}",
            self.fat,
            self.bps,
            self.spc,
            self.nfats,
            self.root_entries,
            self.clusters,
            if self.extra > 0 { "-emb" } else { "" },
            if self.used_device { "-used" } else if self.garbage { "-garb" } else { "" }
        ) + &(if self.slack % self.spc.max(1) > 0 { format!("-slack{}", self.slack % self.spc) } else { String::new() })
    }
    pub fn class(&self) -> String {
        format!("fat{}-bps{}-spc{}-f{}-re{}", self.fat, self.bps, self.spc, self.nfats, self.root_entries)
    }
    pub fn json(&self) -> J {
        J::Str(self.label())
    }
    pub fn total_sectors(&self) -> u32 {
        let bps = u64::from(self.bps);
        let reserved: u64 = if self.fat == 32 { 8 } else { 1 };
        let root_secs = if self.fat == 32 { 0 } else { (u64::from(self.root_entries) * 32 + bps - 1) / bps };
        let entries = u64::from(self.clusters) + 2;
        let fat_bytes = (entries * u64::from(self.fat) + 7) / 8;
        let spf = (fat_bytes + bps - 1) / bps + 1;
        (reserved + u64::from(self.nfats) * spf + root_secs + u64::from(self.clusters) * u64::from(self.spc) + u64::from(self.slack % self.spc.max(1))) as u32
    }
}

pub const GARBAGE: u8 = 0x21;
pub const SENTINEL: u8 = 0xA5;

/// Format a fresh volume with the crate's formatter. Returns the image and the volume byte length.
pub fn make_volume(cfg: &VolCfg) -> Result<(Image, u64), String> {
    let total = cfg.total_sectors();
    let vol_bytes = u64::from(total) * u64::from(cfg.bps);
    let mut img = Image::new(vol_bytes + u64::from(cfg.extra));
    if cfg.used_device {
        // a used device: every byte the formatter does not write explicitly (all FAT copies, root directory,
        // FAT32 root cluster included) stays garbage
        img.set_fill_from(0, GARBAGE);
    } else if cfg.garbage {
        // from the first page boundary after a generous metadata estimate; format zero-fills what it needs
        let meta = vol_bytes - (u64::from(cfg.clusters) * u64::from(cfg.spc) + u64::from(cfg.slack % cfg.spc.max(1))) * u64::from(cfg.bps);
        let start = (meta + 4095) / 4096 * 4096 + 4096;
        if start < vol_bytes {
            img.set_fill_from(start, GARBAGE);
        }
    }
    if cfg.extra > 0 {
        let s = vec![SENTINEL; cfg.extra as usize];
        img.write(vol_bytes, &s);
    }
    let dev = MonDev::new(img);
    dev.set_logging(false, false);
    let ft = match cfg.fat {
        12 => fatfs::FatType::Fat12,
        16 => fatfs::FatType::Fat16,
        _ => fatfs::FatType::Fat32,
    };
    let opts = fatfs::FormatVolumeOptions::new()
        .bytes_per_sector(cfg.bps)
        .bytes_per_cluster(u32::from(cfg.bps) * u32::from(cfg.spc))
        .fats(cfg.nfats)
        .max_root_dir_entries(cfg.root_entries)
        .fat_type(ft)
        .total_sectors(total);
    let mut d = dev.handle();
    match fatfs::format_volume(&mut d, opts) {
        Ok(()) => {}
        Err(e) => return Err(format!("format_volume failed for {}: {:?}", cfg.label(), e)),
    }
    let img = dev.snapshot();
    let g = crate::fatck::geo_of(&img)?;
    if g.fat_bits != u32::from(cfg.fat) {
        return Err(format!("{}: formatted as FAT{}", cfg.label(), g.fat_bits));
    }
    Ok((img, vol_bytes))
}

/// The configuration grid G (DESIGN §3). `i` selects deterministically, rng adds variation.
pub fn grid(rng: &mut Rng, tiny: bool) -> VolCfg {
    let fat = *rng.pick(&[12u8, 12, 16, 16, 32]);
    let bps = *rng.pick(&[512u16, 512, 512, 1024, 2048, 4096]);
    let spc = match fat {
        12 => *rng.pick(&[1u8, 1, 2, 8, 64, 128]),
        16 => *rng.pick(&[1u8, 1, 2, 8, 64]),
        _ => *rng.pick(&[1u8, 1, 2, 8, 128]),
    };
    let nfats = *rng.pick(&[1u8, 2, 2]);
    let root_entries = if fat == 32 { 0 } else { *rng.pick(&[16u16, 16, 32, 512]) };
    let clusters = match fat {
        12 => {
            if tiny {
                rng.range(6, 40) as u32
            } else {
                *rng.pick(&[40u32, 200, 1000, 4000, 4084])
            }
        }
        16 => *rng.pick(&[4085u32, 4200, 9000, 65524]),
        _ => *rng.pick(&[65525u32, 65600, 70000]),
    };
    // root dir entries must fill whole sectors reasonably: keep multiples of bps/32 where possible
    let per_sec = bps / 32;
    let root_entries = if fat == 32 { 0 } else { ((root_entries + per_sec - 1) / per_sec * per_sec).max(per_sec) };
    // one volume in six declares a root that ends inside a sector (RootDirSectors rounds up)
    let root_entries = if fat != 32 && rng.chance(1, 6) { root_entries + *rng.pick(&[1u16, 4, 8, 15]).min(&(per_sec - 1)) + if rng.chance(1, 2) { per_sec * 6 } else { 0 } } else { root_entries };
    // the tiny-root case (16 entries) only exists with 512-byte sectors
    VolCfg {
        fat,
        bps,
        spc,
        nfats,
        root_entries,
        clusters,
        extra: if rng.chance(1, 3) { 8192 } else { 0 },
        garbage: rng.chance(2, 3),
        slack: if spc > 1 && rng.chance(1, 2) { 1 + rng.below(u64::from(spc) - 1) as u8 } else { 0 },
        used_device: fat != 32 && rng.chance(1, 3) || rng.chance(1, 12),
    }
}

pub fn small_cfg(fat: u8) -> VolCfg {
    VolCfg {
        fat,
        bps: 512,
        spc: 1,
        nfats: 2,
        root_entries: if fat == 32 { 0 } else { 32 },
        clusters: match fat {
            12 => 300,
            16 => 4200,
            _ => 65600,
        },
        extra: 4096,
        garbage: true, slack: 0, used_device: false
    }
}
