//! Online random history generator (sees the reference model, so that paths mostly resolve).
#![allow(dead_code)]

use crate::fatck::Geo;
use crate::model::{Model, MH};
use crate::ops::{DirRef, Op};
use crate::sess::OpSource;
use crate::util::Rng;

#[derive(Clone, Debug)]
pub struct GenCfg {
    pub max_ops: usize,
    pub unicode_names: bool,
    pub invalid_names: bool,
    /// op kind weights
    pub w_ns: u32,
    pub w_file: u32,
    pub w_query: u32,
    pub w_remount: u32,
    pub max_file_clusters: u64,
    pub max_nodes: usize,
    pub long_names: bool,
    pub stats_first: bool,
    pub set_times: bool,
    pub dots: bool,
    /// avoid triggers of listed known findings
    pub avoid: Vec<&'static str>,
    /// namespace ops only address the root directory
    pub root_only: bool,
    /// name pool of many different lengths (1..70 units) instead of the standard pool
    pub varied_lengths: bool,
    /// only non-mutating calls (C13)
    pub read_only: bool,
    /// never vary the case of names in lookups (C19: builds without Unicode folding)
    pub exact_case: bool,
}

impl Default for GenCfg {
    fn default() -> Self {
        GenCfg {
            max_ops: 120,
            unicode_names: true,
            invalid_names: true,
            w_ns: 50,
            w_file: 45,
            w_query: 4,
            w_remount: 2,
            max_file_clusters: 5,
            max_nodes: 40,
            long_names: true,
            stats_first: false,
            set_times: true,
            dots: true,
            avoid: Vec::new(),
            root_only: false,
            varied_lengths: false,
            read_only: false,
            exact_case: false,
        }
    }
}

pub struct RandomSource {
    pub rng: Rng,
    pub cfg: GenCfg,
    pub n: usize,
    pub pool: Vec<String>,
}

const BASE_NAMES: &[&str] = &[
    "a", "B.TXT", "d", "e", "f.dat", "readme.md", "x", "Makefile", "A LONG file name.text", "another-long-directory-name", "longfilename1.txt", "longfilename2.txt", "longfilename3.txt", "LONGFI~1.TXT",
    "a.b.c.d", ".hidden", "trailing.", " lead", "UPPER", "lower", "MiXeD.CaSe", "name with spaces and more than thirteen chars.extension", "exactly13char", "exactly-26-characters-long",
    "p", "q", "r", "verylongnamewithoutanydotsorspacesinsideit", "x+y=z;[1],2", "$%'-_@~`!(){}^#&", "index.html", "index.htm", "photo.jpeg", "PHOTO.JPG",
];
const UNI_NAMES: &[&str] = &["\u{e9}t\u{e9}.txt", "\u{df}", "stra\u{df}e", "\u{416}\u{438}\u{432}\u{430}\u{433}\u{43e}", "\u{4e2d}\u{6587}.doc", "\u{fb01}le", "\u{3a3}\u{3af}\u{3c3}\u{3c5}\u{3c6}\u{3bf}\u{3c2}", "caf\u{c9}"];
const BAD_NAMES: &[&str] = &["x:y", "a*b", "what?", "pipe|", "quo\"te", "<lt", "back\\slash", "\u{1F600}smile", "ctl\u{1}"];

impl RandomSource {
    pub fn new(seed: u64, a: u64, b: u64, cfg: GenCfg) -> Self {
        let mut rng = Rng::derive(seed, a, b);
        let mut pool: Vec<String> = Vec::new();
        let k = 5 + rng.usize_below(6);
        for _ in 0..k {
            let n = if cfg.unicode_names && rng.chance(1, 5) {
                (*rng.pick(UNI_NAMES)).to_string()
            } else if cfg.long_names {
                (*rng.pick(BASE_NAMES)).to_string()
            } else {
                (*rng.pick(&BASE_NAMES[..8])).to_string()
            };
            if !pool.contains(&n) {
                pool.push(n);
            }
        }
        if cfg.long_names && rng.chance(1, 3) {
            // a maximal-ish name
            let len = *rng.pick(&[13usize, 14, 26, 27, 100, 200, 255]);
            let mut s = String::new();
            for i in 0..len {
                s.push((b'a' + (i % 26) as u8) as char);
            }
            pool.push(s);
        }
        if cfg.varied_lengths {
            pool.clear();
            let k = 8 + rng.usize_below(10);
            for i in 0..k {
                let len = match rng.below(4) {
                    0 => 1 + rng.usize_below(8),
                    1 => 9 + rng.usize_below(18),
                    2 => 27 + rng.usize_below(40),
                    _ => *rng.pick(&[12usize, 13, 14, 25, 26, 27, 39, 40, 52, 65]),
                };
                let mut s2 = String::new();
                for j in 0..len {
                    s2.push((b'a' + ((i * 7 + j) % 26) as u8) as char);
                }
                if !pool.contains(&s2) {
                    pool.push(s2);
                }
            }
        }
        RandomSource { rng, cfg, n: 0, pool }
    }

    fn vary_case(&mut self, s: &str) -> String {
        if self.cfg.exact_case {
            let _ = self.rng.below(6);
            return s.to_string();
        }
        match self.rng.below(6) {
            0 => s.to_uppercase(),
            1 => s.to_lowercase(),
            _ => s.to_string(),
        }
    }

    fn pick_name(&mut self, m: &Model, dir: usize, prefer_existing: bool) -> String {
        let kids = &m.nodes[dir].children;
        if !kids.is_empty() && (prefer_existing || self.rng.chance(1, 4)) {
            let k = kids[self.rng.usize_below(kids.len())];
            // sometimes address an entry through its 8.3 alias
            if self.rng.chance(1, 8) {
                if let Some(a) = &m.nodes[k].alias {
                    return crate::model::alias_display(a);
                }
            }
            let n = m.nodes[k].name.clone();
            return self.vary_case(&n);
        }
        if self.cfg.invalid_names && self.rng.chance(1, 25) {
            return (*self.rng.pick(BAD_NAMES)).to_string();
        }
        if self.cfg.invalid_names && self.rng.chance(1, 60) {
            return String::new();
        }
        let n = self.pool[self.rng.usize_below(self.pool.len())].clone();
        self.vary_case(&n)
    }

    fn dirs_of(m: &Model) -> Vec<usize> {
        (0..m.nodes.len()).filter(|i| m.nodes[*i].alive && m.nodes[*i].is_dir).collect()
    }

    /// choose a directory reference and a target directory, build a path to `target_dir` + final name
    fn pick_path(&mut self, m: &Model, prefer_existing: bool) -> (DirRef, String) {
        let dirs = if self.cfg.root_only { vec![0] } else { Self::dirs_of(m) };
        let target = dirs[self.rng.usize_below(dirs.len())];
        // possible starting points: root or a Dir handle that is an ancestor of the target
        let mut starts: Vec<(DirRef, usize)> = vec![(DirRef::Root, 0)];
        for (i, h) in m.handles.iter().enumerate() {
            if let Some(MH::Dir { node }) = h {
                if m.is_ancestor_or_self(*node, target) {
                    starts.push((DirRef::H(i), *node));
                }
            }
        }
        let (dref, start) = starts[self.rng.usize_below(starts.len())].clone();
        let mut comps: Vec<String> = Vec::new();
        let mut n = target;
        while n != start {
            let nm = m.nodes[n].name.clone();
            comps.push(self.vary_case(&nm));
            n = m.nodes[n].parent;
        }
        comps.reverse();
        if self.cfg.dots && self.rng.chance(1, 12) && !comps.is_empty() {
            // insert a "child/.." or "." detour
            let pos = self.rng.usize_below(comps.len()) + 1;
            if self.rng.chance(1, 2) {
                comps.insert(pos, ".".into());
            } else {
                let back = comps[pos - 1].clone();
                comps.insert(pos, "..".into());
                comps.insert(pos + 1, back);
            }
        }
        if self.cfg.dots && self.rng.chance(1, 10) {
            // reach the target directory through the ".." entry of one of its own subdirectories ("target/child/..")
            let kids: Vec<String> = (0..m.nodes.len()).filter(|i| m.nodes[*i].alive && m.nodes[*i].is_dir && m.nodes[*i].parent == target && *i != target).map(|i| m.nodes[i].name.clone()).collect();
            if !kids.is_empty() {
                let k = kids[self.rng.usize_below(kids.len())].clone();
                comps.push(self.vary_case(&k));
                comps.push("..".into());
            }
        }
        let last = self.pick_name(m, target, prefer_existing);
        comps.push(last);
        let mut p = comps.join("/");
        match self.rng.below(20) {
            0 => p = format!("/{}", p),
            1 => p = format!("{}/", p),
            2 => p = p.replacen('/', "//", 1),
            _ => {}
        }
        (dref, p)
    }

    fn free_slot(&mut self, m: &Model) -> Option<usize> {
        let free: Vec<usize> = (0..m.handles.len()).filter(|i| m.handles[*i].is_none()).collect();
        if free.is_empty() {
            if self.rng.chance(1, 2) {
                Some(self.rng.usize_below(m.handles.len()))
            } else {
                None
            }
        } else if self.rng.chance(1, 3) {
            None
        } else {
            Some(free[self.rng.usize_below(free.len())])
        }
    }

    fn file_handles(m: &Model) -> Vec<usize> {
        (0..m.handles.len()).filter(|i| matches!(m.handles[*i], Some(MH::File { .. }))).collect()
    }

    fn len_choice(&mut self, cs: u64) -> usize {
        let c = cs as usize;
        let opts = [0usize, 1, 2, 7, 31, 32, 33, 100, 511, 512, 513, c - 1, c, c + 1, 2 * c - 1, 2 * c, 2 * c + 1, c / 2, 3 * c + 5];
        let v = opts[self.rng.usize_below(opts.len())];
        v.min(2 * c + 33).min(140_000)
    }
}

impl OpSource for RandomSource {
    fn next(&mut self, m: &Model, geo: Option<&Geo>) -> Option<Op> {
        if self.n >= self.cfg.max_ops {
            return None;
        }
        self.n += 1;
        if self.n == 1 && self.cfg.stats_first {
            return Some(Op::Stats);
        }
        let cs = geo.map_or(512, |g| g.cluster_size);
        if self.cfg.read_only {
            let fhs = Self::file_handles(m);
            let k = self.rng.weighted(&[10, 8, 8, if fhs.is_empty() { 0 } else { 30 }, 4, 3, 3, 2]);
            return Some(match k {
                0 => {
                    let (dir, path) = self.pick_path(m, true);
                    Op::OpenFile { dir, path, slot: self.free_slot(m) }
                }
                1 => {
                    let (dir, path) = self.pick_path(m, true);
                    Op::OpenDir { dir, path, slot: self.free_slot(m) }
                }
                2 => {
                    let mut refs = vec![DirRef::Root];
                    for (i, h) in m.handles.iter().enumerate() {
                        if let Some(MH::Dir { .. }) = h {
                            refs.push(DirRef::H(i));
                        }
                    }
                    Op::List { dir: refs[self.rng.usize_below(refs.len())].clone() }
                }
                3 => {
                    let h = fhs[self.rng.usize_below(fhs.len())];
                    let size = match &m.handles[h] {
                        Some(MH::File { node, .. }) => m.nodes[*node].content.len() as u64,
                        _ => 0,
                    };
                    match self.rng.below(4) {
                        0 => Op::Seek { h, whence: 0, off: self.rng.below(size + 10) as i64 },
                        1 => Op::Close { h },
                        3 => Op::Extents { h },
                        _ => Op::Read { h, len: self.len_choice(cs) },
                    }
                }
                4 => Op::Stats,
                5 => Op::StatusFlags,
                6 => Op::Label,
                _ => Op::Remount { how: self.rng.below(3) as u8 },
            });
        }
        let alive = m.count_alive();
        let fhs = Self::file_handles(m);
        let w_file = if fhs.is_empty() { self.cfg.w_file / 6 } else { self.cfg.w_file };
        let which = self.rng.weighted(&[self.cfg.w_ns, w_file, self.cfg.w_query, self.cfg.w_remount]);
        match which {
            0 => {
                let k = self.rng.weighted(&[14, 8, 6, 4, 8, 10, 3]);
                match k {
                    0 | 1 if alive >= self.cfg.max_nodes => {
                        let (dir, path) = self.pick_path(m, true);
                        Some(Op::Remove { dir, path })
                    }
                    0 => {
                        let (dir, path) = self.pick_path(m, false);
                        let slot = self.free_slot(m);
                        Some(Op::CreateFile { dir, path, slot })
                    }
                    1 => {
                        let (dir, path) = self.pick_path(m, false);
                        let slot = if self.rng.chance(1, 3) { self.free_slot(m) } else { None };
                        Some(Op::CreateDir { dir, path, slot })
                    }
                    2 => {
                        let (dir, path) = self.pick_path(m, true);
                        let slot = self.free_slot(m);
                        Some(Op::OpenFile { dir, path, slot })
                    }
                    3 => {
                        let (dir, mut path) = self.pick_path(m, true);
                        let slot = self.free_slot(m);
                        // a handle obtained through a dot entry ("x/.." is the parent of x, "x/." is x itself)
                        if self.cfg.dots && self.rng.chance(1, 8) && !path.ends_with('/') {
                            path.push_str(if self.rng.chance(2, 3) { "/.." } else { "/." });
                        }
                        Some(Op::OpenDir { dir, path, slot })
                    }
                    4 => {
                        let (dir, path) = self.pick_path(m, true);
                        Some(Op::Remove { dir, path })
                    }
                    5 => {
                        let (sdir, src) = self.pick_path(m, true);
                        let (ddir, dst) = self.pick_path(m, self.rng.clone().chance(1, 6));
                        Some(Op::Rename { sdir, src, ddir, dst })
                    }
                    _ => {
                        let mut refs = vec![DirRef::Root];
                        for (i, h) in m.handles.iter().enumerate() {
                            if let Some(MH::Dir { .. }) = h {
                                refs.push(DirRef::H(i));
                            }
                        }
                        let dir = refs[self.rng.usize_below(refs.len())].clone();
                        Some(Op::List { dir })
                    }
                }
            }
            1 => {
                if fhs.is_empty() {
                    let (dir, path) = self.pick_path(m, self.rng.clone().chance(1, 2));
                    let slot = Some(self.rng.usize_below(m.handles.len()));
                    return Some(Op::CreateFile { dir, path, slot });
                }
                let h = fhs[self.rng.usize_below(fhs.len())];
                let (node, cur) = match &m.handles[h] {
                    Some(MH::File { node, cur, .. }) => (*node, *cur),
                    _ => (0, 0),
                };
                let size = m.nodes[node].content.len() as u64;
                let k = self.rng.weighted(&[14, 8, 9, 4, 4, 5, if self.cfg.set_times { 2 } else { 0 }, 1]);
                match k {
                    0 => {
                        let mut len = self.len_choice(cs);
                        let cap = self.cfg.max_file_clusters * cs;
                        if cur + len as u64 > cap {
                            len = cap.saturating_sub(cur) as usize;
                        }
                        Some(Op::Write { h, len })
                    }
                    1 => Some(Op::Read { h, len: self.len_choice(cs) }),
                    2 => {
                        let whence = self.rng.below(3) as u8;
                        let tgt: i64 = match self.rng.below(8) {
                            0 => 0,
                            1 => size as i64,
                            2 => size as i64 + 1 + self.rng.below(1000) as i64,
                            3 => -(1 + self.rng.below(5) as i64),
                            4 => (self.rng.below(6) * cs) as i64,
                            5 => (self.rng.below(6) * cs) as i64 + 1,
                            6 => ((self.rng.below(6) + 1) * cs) as i64 - 1,
                            _ => self.rng.below(size + 2) as i64,
                        };
                        let off = match whence {
                            0 => tgt.max(0),
                            1 => tgt - cur as i64,
                            _ => tgt - size as i64,
                        };
                        Some(Op::Seek { h, whence, off })
                    }
                    3 => Some(Op::Truncate { h }),
                    7 => Some(Op::Extents { h }),
                    4 => Some(Op::Flush { h }),
                    5 => Some(Op::Close { h }),
                    _ => {
                        let date = (self.rng.below(128) as u16) << 9 | ((1 + self.rng.below(12)) as u16) << 5 | (1 + self.rng.below(28)) as u16;
                        let time = (self.rng.below(24) as u16) << 11 | (self.rng.below(60) as u16) << 5 | self.rng.below(30) as u16;
                        Some(Op::SetTimes {
                            h,
                            which: self.rng.below(3) as u8,
                            date,
                            time,
                            tenth: self.rng.below(200) as u8,
                        })
                    }
                }
            }
            2 => Some(match self.rng.below(4) {
                0 | 1 => Op::Stats,
                2 => Op::StatusFlags,
                _ => Op::Label,
            }),
            _ => Some(Op::Remount { how: self.rng.below(3) as u8 }),
        }
    }
}
