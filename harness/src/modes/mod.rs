//! Mode dispatch + shared report structure.
#![allow(dead_code)]

use std::collections::{BTreeMap, BTreeSet};
use std::time::Instant;

use crate::util::J;
use crate::Args;

pub mod c01enum;
pub mod c02grid;
pub mod c05cycle;
pub mod c06;
pub mod c07;
pub mod c08;
pub mod c09;
pub mod c13;
pub mod c14;
pub mod c15;
pub mod c16;
pub mod c17;
pub mod c18;
pub mod c19;
pub mod c20;
pub mod faultvar;
pub mod interleave;
pub mod iterwalk;
pub mod mirismoke;
pub mod sessmode;
pub mod stdio;

pub struct Report {
    pub mode: String,
    pub evaluations: u64,
    pub distinct: BTreeSet<u64>,
    pub violations: Vec<J>,
    pub samples: Vec<J>,
    pub counters: BTreeMap<String, u64>,
    pub notes: Vec<String>,
    pub started: Instant,
    pub inconclusive: Vec<String>,
    pub extra: Vec<(String, J)>,
}

impl Report {
    pub fn new(mode: &str) -> Self {
        Report {
            mode: mode.to_string(),
            evaluations: 0,
            distinct: BTreeSet::new(),
            violations: Vec::new(),
            samples: Vec::new(),
            counters: BTreeMap::new(),
            notes: Vec::new(),
            started: Instant::now(),
            inconclusive: Vec::new(),
            extra: Vec::new(),
        }
    }
    pub fn count(&mut self, k: &str, n: u64) {
        *self.counters.entry(k.to_string()).or_insert(0) += n;
    }
    pub fn viol(&mut self, prop: &str, sig: &str, rule: &str, detail: &str, replay: J) {
        // one report per signature and shard is enough
        let dup = self.violations.iter().any(|v| matches!(v, J::Obj(o) if o.iter().any(|(k, x)| k == "sig" && *x == J::Str(sig.to_string()))));
        if dup {
            self.count("duplicate_violations", 1);
            return;
        }
        if self.violations.len() >= 40 {
            return;
        }
        self.violations.push(
            J::obj()
                .set("property", J::s(prop))
                .set("sig", J::s(sig))
                .set("rule", J::s(rule))
                .set("detail", J::s(detail))
                .set("replay", replay),
        );
    }
    pub fn sample(&mut self, j: J) {
        if self.samples.len() < 6 {
            self.samples.push(j);
        }
    }
    pub fn elapsed(&self) -> f64 {
        self.started.elapsed().as_secs_f64()
    }
    pub fn to_json(&self, args: &Args) -> J {
        if let Some(p) = args.get("distinct-out") {
            let mut b = Vec::with_capacity(self.distinct.len() * 8);
            for d in &self.distinct {
                b.extend_from_slice(&d.to_le_bytes());
            }
            let _ = std::fs::write(p, b);
        }
        let mut j = J::obj()
            .set("mode", J::s(self.mode.clone()))
            .set("evaluations", J::u(self.evaluations))
            .set("distinct", J::u(self.distinct.len() as u64))
            .set("violations", J::Arr(self.violations.clone()))
            .set("samples", J::Arr(self.samples.clone()))
            .set("counters", J::Obj(self.counters.iter().map(|(k, v)| (k.clone(), J::u(*v))).collect()))
            .set("notes", J::arr_of_str(self.notes.clone()))
            .set("inconclusive", J::arr_of_str(self.inconclusive.clone()))
            .set("wall_s", J::Num(self.elapsed()));
        for (k, v) in &self.extra {
            j.put(k, v.clone());
        }
        j
    }
}

pub fn run(args: &Args) -> J {
    let mut rep = Report::new(&args.mode);
    match args.mode.as_str() {
        "sess" => sessmode::run(args, &mut rep),
        "c07" => c07::run(args, &mut rep),
        "c06" => c06::run(args, &mut rep),
        "c02grid" => c02grid::run(args, &mut rep),
        "c01enum" => c01enum::run(args, &mut rep),
        "c05cycle" => c05cycle::run(args, &mut rep),
        "c15" => c15::run(args, &mut rep),
        "c17" => c17::run(args, &mut rep),
        "c16" => c16::run(args, &mut rep),
        "c09" => c09::run(args, &mut rep),
        "c08" => c08::run(args, &mut rep),
        "c13" => c13::run(args, &mut rep),
        "c14" => c14::run(args, &mut rep),
        "stdio" => stdio::run(args, &mut rep),
        "mirismoke" => mirismoke::run(args, &mut rep),
        "c14fault" => faultvar::run_c14(args, &mut rep),
        "c05fault" => faultvar::run_c05(args, &mut rep),
        "iterwalk" => iterwalk::run(args, &mut rep),
        "interleave" => interleave::run(args, &mut rep),
        "c12fault" => faultvar::run_c12(args, &mut rep),
        "c18" => c18::run(args, &mut rep),
        "c19" => c19::run(args, &mut rep),
        "c20" => c20::run(args, &mut rep),
        m => {
            rep.inconclusive.push(format!("unknown mode {}", m));
        }
    }
    rep.to_json(args)
}
