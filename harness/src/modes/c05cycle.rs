//! C05 (conservation part): fill-to-full / delete-all cycles on small volumes. Capacity must not shrink, the
//! free count must come back, out-of-space may only be reported when nothing is free.
#![allow(dead_code)]

use std::panic::{catch_unwind, AssertUnwindSafe};

use fatfs::{Seek as _, Write as _};

use crate::clock::Clock;
use crate::dev::MonDev;
use crate::fatck::{self, DecodeOpts};
use crate::modes::Report;
use crate::sess::{take_panic, Fs};
use crate::util::{Fnv, Rng, J};
use crate::vol::{make_volume, VolCfg};
use crate::Args;

struct CycleRes {
    bytes: Vec<u64>,
    free_after_fill: Vec<u64>,
    free_after_delete: Vec<u64>,
    initial_free: u64,
    dir_clusters: Vec<u64>,
}

fn raw_free(dev: &MonDev) -> Result<(u64, Vec<fatck::Diag>), String> {
    let img = dev.snapshot();
    let d = fatck::decode(&img, &DecodeOpts { read_content: false, unicode_fold: true, ..Default::default() })?;
    Ok((d.free_count, d.diags))
}

fn one(vc: &VolCfg, cycles: usize, nfiles: usize, in_subdir: bool, stats_early: bool, rng: &mut Rng) -> Result<CycleRes, (String, String)> {
    let (img, _) = make_volume(vc).map_err(|e| ("setup".to_string(), e))?;
    let dev = MonDev::new(img);
    dev.set_logging(false, false);
    // cumulative over the whole run (hundreds of thousands of calls), so generous: it only guards against non-termination
    dev.set_budget(Some(60_000_000_000));
    let cs = usize::from(vc.bps) * usize::from(vc.spc);
    let fs: Fs = fatfs::FileSystem::new(dev.handle(), fatfs::FsOptions::new().time_provider(Clock::new(9))).map_err(|e| ("mount".to_string(), format!("{:?}", e)))?;
    let root = fs.root_dir();
    let dir = if in_subdir { root.create_dir("fill dir").map_err(|e| ("mkdir".to_string(), format!("{:?}", e)))? } else { root.clone() };
    let (initial_free, _) = raw_free(&dev).map_err(|e| ("decode".to_string(), e))?;
    if stats_early {
        let st = fs.stats().map_err(|e| ("stats".to_string(), format!("{:?}", e)))?;
        if u64::from(st.free_clusters()) != initial_free {
            return Err(("stats-free".into(), format!("stats() {} vs raw {} before the first cycle", st.free_clusters(), initial_free)));
        }
    }
    let mut res = CycleRes { bytes: vec![], free_after_fill: vec![], free_after_delete: vec![], initial_free, dir_clusters: vec![] };
    let buf: Vec<u8> = (0..cs * 2 + 5).map(|i| (i * 7 + 3) as u8).collect();
    for c in 0..cycles {
        let mut written = 0u64;
        let mut full = false;
        let mut names = Vec::new();
        for f in 0..nfiles {
            let name = format!("fill file number {} of cycle.bin", f);
            let mut file = match dir.create_file(&name) {
                Ok(f) => f,
                Err(fatfs::Error::NotEnoughSpace) => {
                    // only legitimate when nothing is free (or a fixed root is full)
                    let (free, _) = raw_free(&dev).map_err(|e| ("decode".to_string(), e))?;
                    if free > 0 && in_subdir {
                        return Err(("enospc-with-room".into(), format!("cycle {}: create_file failed with NotEnoughSpace while {} clusters are free", c, free)));
                    }
                    break;
                }
                Err(e) => return Err(("create".into(), format!("cycle {}: create_file failed: {:?}", c, e))),
            };
            names.push(name);
            // files get different sizes; the last ones run into the end of the volume
            let target = if f + 1 == nfiles { usize::MAX } else { cs * (1 + (f * 3 + c) % 4) + f };
            let mut mine = 0usize;
            while mine < target {
                let want = (target - mine).min(buf.len() - rng.usize_below(3));
                match file.write(&buf[..want]) {
                    Ok(0) => break,
                    Ok(n) => {
                        mine += n;
                        written += n as u64;
                    }
                    Err(fatfs::Error::NotEnoughSpace) => {
                        let (free, _) = raw_free(&dev).map_err(|e| ("decode".to_string(), e))?;
                        if free > 0 {
                            return Err(("enospc-with-room".into(), format!("cycle {}: write failed with NotEnoughSpace while {} clusters are free", c, free)));
                        }
                        full = true;
                        break;
                    }
                    Err(e) => return Err(("write".into(), format!("cycle {}: write failed: {:?}", c, e))),
                }
            }
            if let Err(e) = file.flush() {
                return Err(("flush".into(), format!("cycle {}: flush failed: {:?}", c, e)));
            }
            // half of the files are truncated to a cluster-straddling size before removal (exercises truncate frees)
            if f % 2 == 1 && mine > cs {
                let _ = file.seek(fatfs::SeekFrom::Start((cs + 1) as u64));
                if let Err(e) = file.truncate() {
                    return Err(("truncate".into(), format!("cycle {}: truncate failed: {:?}", c, e)));
                }
                written -= (mine - cs - 1) as u64;
                // and refilled, so that every cycle ends with a full volume
                if full {
                    loop {
                        match file.write(&buf) {
                            Ok(0) => break,
                            Ok(n) => written += n as u64,
                            Err(fatfs::Error::NotEnoughSpace) => break,
                            Err(e) => return Err(("write".into(), format!("cycle {}: refill failed: {:?}", c, e))),
                        }
                    }
                }
            }
            drop(file);
            if full {
                break;
            }
        }
        if !full {
            return Err(("setup".into(), format!("cycle {}: the volume did not fill up ({} bytes written)", c, written)));
        }
        let (free_full, diags) = raw_free(&dev).map_err(|e| ("decode".to_string(), e))?;
        if !diags.is_empty() {
            return Err(("fsck".into(), format!("cycle {} (full volume): {:?}", c, diags)));
        }
        let st = fs.stats().map_err(|e| ("stats".to_string(), format!("{:?}", e)))?;
        if u64::from(st.free_clusters()) != free_full {
            return Err(("stats-free".into(), format!("cycle {} full: stats() reports {} free clusters, the raw FAT has {}", c, st.free_clusters(), free_full)));
        }
        res.bytes.push(written);
        res.free_after_fill.push(free_full);
        for nme in &names {
            if let Err(e) = dir.remove(nme) {
                return Err(("remove".into(), format!("cycle {}: remove({}) failed: {:?}", c, nme, e)));
            }
        }
        // a fixed root is filled with empty files until it refuses, then directory creations must fail there without
        // costing a cluster (the volume is otherwise empty, so any capacity lost shows in the count below)
        if !in_subdir && vc.fat != 32 {
            let mut fillers = Vec::new();
            for k in 0..4096 {
                let nme = format!("root filler with a long name {}.tmp", k);
                match dir.create_file(&nme) {
                    Ok(f) => {
                        drop(f);
                        fillers.push(nme);
                    }
                    Err(_) => break,
                }
            }
            for k in 0..2 {
                let nme = format!("directory that cannot be created {}", k);
                if dir.create_dir(&nme).is_ok() {
                    let _ = dir.remove(&nme);
                }
            }
            for nme in &fillers {
                if let Err(e) = dir.remove(nme) {
                    return Err(("remove".into(), format!("cycle {}: remove({}) failed: {:?}", c, nme, e)));
                }
            }
        }
        let (free_del, diags) = raw_free(&dev).map_err(|e| ("decode".to_string(), e))?;
        if !diags.is_empty() {
            return Err(("fsck".into(), format!("cycle {} (after delete-all): {:?}", c, diags)));
        }
        let st = fs.stats().map_err(|e| ("stats".to_string(), format!("{:?}", e)))?;
        if u64::from(st.free_clusters()) != free_del {
            return Err(("stats-free".into(), format!("cycle {} after delete-all: stats() reports {} free clusters, the raw FAT has {}", c, st.free_clusters(), free_del)));
        }
        res.free_after_delete.push(free_del);
    }
    drop(dir);
    drop(root);
    fs.unmount().map_err(|e| ("unmount".to_string(), format!("{:?}", e)))?;
    Ok(res)
}

pub fn run(args: &Args, rep: &mut Report) {
    let seed = args.u64("seed", 1);
    let (shard, nshards) = args.shard();
    let thorough = args.str("tier", "quick") == "thorough";
    let cycles = if thorough { 30 } else { 8 };
    let mut n = 0u64;
    let mut cfgs: Vec<VolCfg> = Vec::new();
    for (fat, clusters) in [(12u8, 24u32), (12, 97), (12, 500), (16, 4085), (16, 4300), (32, 65525)] {
        for (bps, spc) in [(512u16, 1u8), (512, 4), (1024, 2)] {
            for nfats in [1u8, 2] {
                if fat == 32 && (spc != 1 || !thorough && nfats == 2) {
                    continue;
                }
                cfgs.push(VolCfg { fat, bps, spc, nfats, root_entries: if fat == 32 { 0 } else { 64 * (bps / 512) }, clusters, extra: 0, garbage: nfats == 1, slack: if spc > 1 { 1 } else { 0 }, used_device: nfats == 2 && fat != 32 });
            }
        }
    }
    // the largest volume of each width: the highest cluster numbers sit right below the reserved values of the table
    // (0xFF5 is a data cluster on a 4084-cluster FAT12 volume, 0xFFF5 on a 65524-cluster FAT16 volume)
    // (whichever of the candidate sizes the formatter accepts for that width)
    let mut top12 = 0;
    for clusters in [4084u32, 4083, 4082, 4081, 4080] {
        let vc = VolCfg { fat: 12, bps: 512, spc: 1, nfats: 2, root_entries: 64, clusters, extra: 0, garbage: false, slack: 0, used_device: false };
        if top12 < 2 && crate::vol::make_volume(&vc).is_ok() {
            cfgs.push(vc);
            top12 += 1;
        }
    }
    let mut top16 = 0;
    for clusters in [65524u32, 65523, 65522, 65521, 65520] {
        let vc = VolCfg { fat: 16, bps: 512, spc: 1, nfats: 1, root_entries: 64, clusters, extra: 0, garbage: false, slack: 0, used_device: false };
        if top16 < 1 && crate::vol::make_volume(&vc).is_ok() {
            cfgs.push(vc);
            top16 += 1;
        }
    }
    for vc in cfgs {
        for in_subdir in [false, true] {
            for stats_early in [false, true] {
                n += 1;
                if n % nshards != shard {
                    continue;
                }
                let mut rng = Rng::derive(seed, 0xC05C, n);
                let nfiles = 3 + rng.usize_below(6);
                let label = format!("{} {} {}", vc.label(), if in_subdir { "subdir" } else { "root" }, if stats_early { "stats-first" } else { "stats-late" });
                let r = catch_unwind(AssertUnwindSafe(|| one(&vc, cycles, nfiles, in_subdir || vc.fat == 32, stats_early, &mut rng)));
                let rj = |d: &str| J::obj().set("argv", J::arr_of_str(vec!["c05cycle".to_string(), "--seed".into(), seed.to_string()])).set("variant", J::s(crate::modes::sessmode::variant_name())).set("volume", J::s(label.clone())).set("files", J::u(nfiles as u64)).set("detail", J::s(d));
                match r {
                    Err(_) => {
                        let (cls, full) = take_panic();
                        let d = format!("[{}] fill/delete cycle panicked: {}", label, full);
                        rep.viol("C05", &format!("C05|cycle-panic|{}", cls), "panic", &d, rj(&d));
                    }
                    Ok(Err((rule, detail))) => {
                        if rule == "setup" {
                            rep.inconclusive.push(format!("{}: {}", label, detail));
                        } else {
                            let d = format!("[{}] {}", label, detail);
                            rep.viol("C05", &format!("C05|cycle|{}", rule), &rule, &d, rj(&d));
                        }
                    }
                    Ok(Ok(res)) => {
                        rep.evaluations += res.bytes.len() as u64;
                        rep.count("cycles", res.bytes.len() as u64);
                        rep.count("volumes", 1);
                        let mut f = Fnv::new();
                        f.str(&label).u64(res.bytes[0]);
                        rep.distinct.insert(f.get());
                        // the first cycle may grow the directory; from then on everything must repeat exactly
                        let base = if res.bytes.len() > 1 { 1 } else { 0 };
                        let grows_dir = in_subdir || vc.fat == 32;
                        for c in base..res.bytes.len() {
                            if res.bytes[c] != res.bytes[base] {
                                let d = format!("[{}] capacity changed: {:?} bytes could be written per cycle (free after delete-all per cycle: {:?})", label, res.bytes, res.free_after_delete);
                                rep.viol("C05", "C05|cycle|capacity-shrinks", "capacity-shrinks", &d, rj(&d));
                                break;
                            }
                            if res.free_after_delete[c] != res.free_after_delete[base] {
                                let d = format!("[{}] free clusters after delete-all per cycle: {:?} (initially {})", label, res.free_after_delete, res.initial_free);
                                rep.viol("C05", "C05|cycle|space-not-reclaimed", "space-not-reclaimed", &d, rj(&d));
                                break;
                            }
                        }
                        if !grows_dir && (res.free_after_delete[0] != res.initial_free || res.bytes[0] != res.bytes[base]) {
                            let d = format!("[{}] fixed root: free after the first delete-all {} != initial {} (bytes per cycle {:?})", label, res.free_after_delete[0], res.initial_free, res.bytes);
                            rep.viol("C05", "C05|cycle|space-not-reclaimed", "space-not-reclaimed", &d, rj(&d));
                        }
                        if grows_dir && res.initial_free < res.free_after_delete[0] {
                            let d = format!("[{}] more free clusters after delete-all ({}) than initially ({})", label, res.free_after_delete[0], res.initial_free);
                            rep.viol("C05", "C05|cycle|free-count-grew", "free-count-grew", &d, rj(&d));
                        }
                        if res.free_after_fill.iter().any(|f| *f != 0) {
                            let d = format!("[{}] out of space was reported with free clusters left: {:?}", label, res.free_after_fill);
                            rep.viol("C05", "C05|cycle|enospc-with-room", "enospc-with-room", &d, rj(&d));
                        }
                        if rep.samples.len() < 4 {
                            rep.sample(J::obj().set("volume", J::s(label.clone())).set("bytes_per_cycle", J::Arr(res.bytes.iter().map(|b| J::u(*b)).collect())).set("free_after_delete", J::Arr(res.free_after_delete.iter().map(|b| J::u(*b)).collect())).set("initial_free", J::u(res.initial_free)));
                        }
                    }
                }
            }
        }
    }
}
