//! C19: build features change only what they document. The same driver is compiled under three feature sets; every
//! case emits its observation trace and the hash of the final image; verif.py compares the outputs pairwise.
#![allow(dead_code)]

use std::fmt::Write as _;

use crate::build::{build, Spec};
use crate::gen::{GenCfg, RandomSource};
use crate::modes::c15::NameSource;
use crate::modes::sessmode::{unicode_build, VolCache};
use crate::modes::Report;
use crate::sess::{run_session, SessCfg};
use crate::util::{Fnv, Rng, J};
use crate::vol::{grid, VolCfg};
use crate::Args;

pub fn run(args: &Args, rep: &mut Report) {
    let seed = args.u64("seed", 1);
    let (shard, nshards) = args.shard();
    let thorough = args.str("tier", "quick") == "thorough";
    let mut out = String::new();
    let mut cache = VolCache::new();
    let mut emit = |kind: &str, id: u64, o: &crate::sess::Outcome, rep: &mut Report, out: &mut String| {
        let sha = o.final_img.sha256();
        let mut f = Fnv::new();
        for l in &o.trace {
            f.str(l);
        }
        let _ = writeln!(out, "#CASE {} {} image={} trace={:016x} lines={}", kind, id, sha, f.get(), o.trace.len());
        for l in &o.trace {
            let _ = writeln!(out, "{}", l);
        }
        rep.evaluations += o.counters.api_calls;
        rep.count(&format!("cases:{}", kind), 1);
        let mut d = Fnv::new();
        d.str(kind).u64(id);
        rep.distinct.insert(d.get());
        if rep.samples.len() < 3 {
            rep.sample(J::obj().set("case", J::s(format!("{} {}", kind, id))).set("image_sha256", J::s(sha)).set("trace_head", J::arr_of_str(o.trace.iter().take(6).cloned())));
        }
    };
    let mut scfg = SessCfg::all(unicode_build());
    scfg.props = ["C01"].into_iter().collect();
    scfg.lib_walk = false;
    scfg.trace = true;
    let small = VolCfg { fat: 12, bps: 512, spc: 1, nfats: 2, root_entries: 64, clusters: 200, extra: 0, garbage: false, slack: 0, used_device: false };
    // ---- every long-name length 1..=255 units (ASCII), and 2-byte characters up to the 255-byte limit
    let mut n = 0u64;
    for len in 1..=255usize {
        for (kind, ch, maxlen) in [("namelen-ascii", "a", 255usize), ("namelen-2byte", "\u{e9}", 127), ("namelen-3byte", "\u{4e2d}", 85)] {
            if len > maxlen + 1 {
                continue;
            }
            n += 1;
            if n % nshards != shard {
                continue;
            }
            let name: String = (0..len).map(|i| if i % 5 == 4 { ch.to_string() } else { ((b'b' + (i % 20) as u8) as char).to_string() }).collect::<Vec<_>>().join("");
            let name: String = if kind == "namelen-ascii" { (0..len).map(|i| (b'a' + (i % 26) as u8) as char).collect() } else { name };
            let Ok((img, vb)) = cache.get(&small) else { continue };
            let mut src = NameSource::new(&name, len % 2 == 0);
            let o = run_session(&scfg, &img, vb, 0, &mut src);
            emit(kind, len as u64, &o, rep, &mut out);
        }
    }
    // ---- random sessions
    let per = args.u64("sessions", if thorough { 400 } else { 40 });
    for k in 0..per {
        let id = k * nshards + shard;
        for kind in ["sess-ascii", "sess-exact", "sess-case"] {
            let mut rng = Rng::derive(seed, 0xC19, id);
            let vc = grid(&mut rng, false);
            let Ok((img, vb)) = cache.get(&vc) else { continue };
            let mut g = GenCfg::default();
            g.max_ops = 40 + rng.usize_below(80);
            g.unicode_names = kind != "sess-ascii";
            g.exact_case = kind == "sess-exact";
            g.invalid_names = kind != "sess-exact";
            let mut src = RandomSource::new(seed, 0x19a, id, g);
            let o = run_session(&scfg, &img, vb, 0, &mut src);
            emit(kind, id, &o, rep, &mut out);
        }
        // foreign images: listings (orphaned / deleted slots, OEM names, every name length) then a few mutations
        let mut rng = Rng::derive(seed, 0xC19F, id);
        let spec = Spec::random(&mut rng);
        if let Ok((img, truth)) = build(&spec, &mut rng) {
            let mut g = GenCfg::default();
            g.read_only = true;
            g.exact_case = true;
            g.max_ops = 40;
            let mut src = RandomSource::new(seed, 0x19b, id, g);
            let mut sc2 = scfg.clone();
            sc2.tolerate_baseline_diags = true;
            let o = run_session(&sc2, &img, truth.vol_bytes, 0, &mut src);
            emit("foreign-read", id, &o, rep, &mut out);
            let mut g2 = GenCfg::default();
            g2.exact_case = true;
            g2.unicode_names = false;
            g2.invalid_names = false;
            g2.max_ops = 15;
            let mut src2 = RandomSource::new(seed, 0x19c, id, g2);
            let o2 = run_session(&sc2, &img, truth.vol_bytes, 0, &mut src2);
            emit("foreign-write", id, &o2, rep, &mut out);
        }
    }
    // ---- raw directory contents the library's own writer never produces: stray and broken long-name runs, garbage
    // slots, odd short entries. Decoding them must not depend on how the long-name buffer is allocated.
    {
        use crate::modes::c17::{bases, iterate, soup, IterRes};
        let b = bases();
        let per_shard = if thorough { 40_000 } else { 1_500 };
        for k in 0..per_shard {
            let id = k * nshards + shard;
            let mut rng = Rng::derive(seed, 0xC195, id);
            let slots = soup(&mut rng);
            let in_sub = id % 3 == 0;
            let (mut img, off, cap) = if in_sub { (b.sub_img.clone(), b.sub_off, b.sub_slots) } else { (b.root_img.clone(), b.root_off, b.root_slots) };
            let mut bytes = Vec::new();
            for sl in slots.iter().take(cap) {
                bytes.extend_from_slice(sl);
            }
            img.write(off, &bytes);
            let mut lines: Vec<String> = Vec::new();
            match iterate(&img, in_sub) {
                IterRes::Ok(seen) => {
                    for e in seen {
                        lines.push(format!("entry long={:?} short={:02x?} attr={:#04x} len={}", e.long, e.short, e.attr, e.len));
                    }
                }
                IterRes::Err(ek) => lines.push(format!("iteration failed: {}", ek.name())),
                IterRes::Panic(cls, _, budget) => lines.push(format!("iteration {}: {}", if budget { "did not terminate" } else { "panicked" }, cls)),
            }
            let mut f = Fnv::new();
            for l in &lines {
                f.str(l);
            }
            let _ = writeln!(out, "#CASE slot-soup {} image={} trace={:016x} lines={}", id, img.sha256(), f.get(), lines.len());
            for l in &lines {
                let _ = writeln!(out, "{}", l);
            }
            rep.evaluations += 1;
            rep.count("cases:slot-soup", 1);
            let mut d = Fnv::new();
            d.str("slot-soup").u64(id);
            rep.distinct.insert(d.get());
        }
    }
    if let Some(p) = args.get("trace-out") {
        let _ = std::fs::write(p, out);
    }
}
