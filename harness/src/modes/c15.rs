//! C15: names - total validation, lossless long names, case-insensitive lookup.
//! Every candidate name gets its own tiny monitored session (create / lookup matrix / rename / remove).
#![allow(dead_code)]

use std::collections::BTreeSet;

use crate::fatck::Geo;
use crate::model::{name_errors, Model};
use crate::modes::sessmode::{unicode_build, VolCache};
use crate::modes::Report;
use crate::ops::{DirRef, Op};
use crate::sess::{run_session, OpSource, SessCfg};
use crate::util::{fnv_of, show_str, Rng, J};
use crate::vol::VolCfg;
use crate::Args;

pub struct NameSource {
    name: String,
    step: usize,
    valid: bool,
    in_dir: bool,
    /// operations issued before the name under test is created
    pre: Vec<Op>,
}

impl NameSource {
    pub fn new(name: &str, in_dir: bool) -> Self {
        NameSource {
            name: name.to_string(),
            step: 0,
            valid: name_errors(name).is_empty(),
            in_dir,
            pre: vec![
                Op::CreateFile { dir: DirRef::Root, path: "src.bin".into(), slot: None },
                if in_dir { Op::CreateDir { dir: DirRef::Root, path: "dir".into(), slot: None } } else { Op::List { dir: DirRef::Root } },
            ],
        }
    }
    /// The directory is prepared with released runs of 1..=5 slots, each directly followed by a live long name: a new
    /// name that reuses a run must fit it exactly and leave the neighbours' names intact.
    pub fn with_holes(name: &str, in_dir: bool) -> Self {
        let mut me = Self::new(name, in_dir);
        let spacers = ["S1.TXT", "spacer two", "spacer needing three", "spacer that needs four slots here", "a spacer name that is long enough for five slots"];
        for (i, sp) in spacers.iter().enumerate() {
            me.pre.push(Op::CreateFile { dir: DirRef::Root, path: me.p(sp), slot: None });
            me.pre.push(Op::CreateFile { dir: DirRef::Root, path: me.p(&format!("Neighbour number {} keeps its long name.txt", i)), slot: None });
        }
        for sp in spacers.iter() {
            me.pre.push(Op::Remove { dir: DirRef::Root, path: me.p(sp) });
        }
        me
    }
    fn p(&self, n: &str) -> String {
        if self.in_dir {
            format!("dir/{}", n)
        } else {
            n.to_string()
        }
    }
}

fn swap_case(s: &str) -> String {
    s.chars()
        .flat_map(|c| {
            if c.is_lowercase() {
                c.to_uppercase().collect::<Vec<_>>()
            } else {
                c.to_lowercase().collect::<Vec<_>>()
            }
        })
        .collect()
}

impl OpSource for NameSource {
    fn next(&mut self, m: &Model, _g: Option<&Geo>) -> Option<Op> {
        let n = self.name.clone();
        let root = DirRef::Root;
        let s = self.step;
        self.step += 1;
        // common prologue
        if s < self.pre.len() {
            return Some(self.pre[s].clone());
        }
        let s = s - self.pre.len() + 2;
        if !self.valid {
            return match s {
                2 => Some(Op::CreateFile { dir: root, path: self.p(&n), slot: None }),
                3 => Some(Op::CreateDir { dir: root, path: self.p(&n), slot: None }),
                4 => Some(Op::Rename { sdir: DirRef::Root, src: "src.bin".into(), ddir: DirRef::Root, dst: self.p(&n) }),
                5 => Some(Op::OpenFile { dir: root, path: "src.bin".into(), slot: None }),
                _ => None,
            };
        }
        // alias of the created entry, if the model has learned it
        let alias = m.nodes.iter().find(|x| x.alive && x.name == n).and_then(|x| x.alias).map(|a| crate::model::alias_display(&a));
        let mut chars: Vec<char> = n.chars().collect();
        match s {
            2 => Some(Op::CreateFile { dir: root, path: self.p(&n), slot: None }),
            3 => Some(Op::OpenFile { dir: root, path: self.p(&n.to_uppercase()), slot: None }),
            4 => Some(Op::OpenFile { dir: root, path: self.p(&n.to_lowercase()), slot: None }),
            5 => Some(Op::OpenFile { dir: root, path: self.p(&swap_case(&n)), slot: None }),
            6 => Some(Op::OpenFile { dir: root, path: self.p(&alias.unwrap_or_else(|| n.clone())), slot: None }),
            7 => Some(Op::OpenFile { dir: root, path: self.p(&format!("{}x", n)), slot: None }),
            8 => {
                chars.pop();
                let t: String = chars.into_iter().collect();
                if t.is_empty() {
                    Some(Op::List { dir: DirRef::Root })
                } else {
                    Some(Op::OpenFile { dir: root, path: self.p(&t), slot: None })
                }
            }
            9 => {
                // one char substituted
                if let Some(c) = chars.last_mut() {
                    *c = if *c == 'q' { 'z' } else { 'q' };
                }
                let t: String = chars.into_iter().collect();
                Some(Op::OpenFile { dir: root, path: self.p(&t), slot: None })
            }
            10 => Some(Op::CreateDir { dir: root, path: self.p(&swap_case(&n)), slot: None }),
            11 => Some(Op::Rename { sdir: DirRef::Root, src: self.p(&n), ddir: DirRef::Root, dst: self.p("moved.tmp") }),
            12 => Some(Op::Rename { sdir: DirRef::Root, src: self.p("moved.tmp"), ddir: DirRef::Root, dst: self.p(&n) }),
            13 => Some(Op::OpenFile { dir: root, path: self.p(&n), slot: None }),
            14 => Some(Op::Remove { dir: root, path: self.p(&swap_case(&n)) }),
            15 => Some(Op::CreateDir { dir: root, path: self.p(&n), slot: None }),
            16 => Some(Op::OpenDir { dir: root, path: self.p(&n.to_uppercase()), slot: None }),
            _ => None,
        }
    }
}

pub fn run_name(rep: &mut Report, args: &Args, cache: &mut VolCache, name: &str, in_dir: bool, seen_sigs: &mut BTreeSet<String>) {
    run_name_x(rep, args, cache, name, in_dir, false, seen_sigs)
}

pub fn run_name_x(rep: &mut Report, _args: &Args, cache: &mut VolCache, name: &str, in_dir: bool, holes: bool, seen_sigs: &mut BTreeSet<String>) {
    let vc = VolCfg { fat: 12, bps: 512, spc: 1, nfats: 1, root_entries: 64, clusters: 64, extra: 0, garbage: false, slack: 0, used_device: false };
    let Ok((img, vb)) = cache.get(&vc) else {
        rep.inconclusive.push("template volume could not be formatted".into());
        return;
    };
    let mut scfg = SessCfg::all(unicode_build());
    scfg.props = ["C01", "C03", "C15", "C16"].into_iter().collect();
    scfg.nhandles = 1;
    let nh = fnv_of(&[name]);
    scfg.short_dev = if nh % 4 == 0 { Some(nh) } else { None };
    let mut src = if holes { NameSource::with_holes(name, in_dir) } else { NameSource::new(name, in_dir) };
    if holes {
        rep.count("sessions_with_released_runs", 1);
    }
    let class = fnv_of(&["c15", if name_errors(name).is_empty() { "valid" } else { "invalid" }]);
    let o = run_session(&scfg, &img, vb, class, &mut src);
    rep.evaluations += 1;
    rep.count("api_calls", o.counters.api_calls);
    for ((kind, ek), n) in &o.counters.op_outcomes {
        rep.count(&format!("outcome:{}:{}", kind, ek), *n);
    }
    // distinct = distinct names (hash) - each is a different input of the domain
    rep.distinct.insert(fnv_of(&[name, if in_dir { "d" } else { "r" }, if holes { "holes" } else { "" }]));
    if let Some(v) = o.violation {
        // everything these sessions can reveal is name handling: report under C15
        let sig = format!("C15|{}", v.sig);
        // collapse per-character duplicates: keep the rule part only
        let short: String = sig.split('|').take(5).collect::<Vec<_>>().join("|");
        if seen_sigs.insert(short.clone()) {
            let hist: Vec<String> = o.history.iter().map(|x| x.show()).collect();
            let rj = J::obj()
                .set("argv", J::arr_of_str(vec!["c15".to_string(), "--only-name-hex".into(), crate::util::hex(name.as_bytes())]))
                .set("variant", J::s(crate::modes::sessmode::variant_name()))
                .set("name", J::s(show_str(name)))
                .set("minimised_ops", J::arr_of_str(hist))
                .set("detail", J::s(v.detail.clone()));
            rep.viol("C15", &short, &v.rule, &format!("name \"{}\" ({} bytes): {}", show_str(name), name.len(), v.detail), rj);
        } else {
            rep.count("duplicate_violations", 1);
        }
    }
}

pub fn run(args: &Args, rep: &mut Report) {
    let seed = args.u64("seed", 1);
    let (shard, nshards) = args.shard();
    let thorough = args.str("tier", "quick") == "thorough";
    let mut cache = VolCache::new();
    let mut seen = BTreeSet::new();
    if let Some(h) = args.get("only-name-hex") {
        let bytes: Vec<u8> = (0..h.len() / 2).filter_map(|i| u8::from_str_radix(&h[i * 2..i * 2 + 2], 16).ok()).collect();
        let name = String::from_utf8_lossy(&bytes).to_string();
        run_name(rep, args, &mut cache, &name, false, &mut seen);
        run_name(rep, args, &mut cache, &name, true, &mut seen);
        run_name_x(rep, args, &mut cache, &name, false, true, &mut seen);
        run_name_x(rep, args, &mut cache, &name, true, true, &mut seen);
        return;
    }
    let mut rng = Rng::derive(seed, 0xC15, shard);
    let mut n = 0u64;
    let mut emit = |name: String, in_dir: bool, rep: &mut Report, cache: &mut VolCache, seen: &mut BTreeSet<String>| {
        n += 1;
        if n % nshards != shard {
            return;
        }
        run_name(rep, args, cache, &name, in_dir, seen);
        // every length also into a directory with released slot runs (ASCII and 3-byte characters)
        let cnt = name.chars().count();
        if cnt > 3 && (name.chars().all(|c| c == 'a') || name.chars().all(|c| c == '\u{4e2d}') || cnt < 40 && n % 5 == 0) {
            run_name_x(rep, args, cache, &name, in_dir || cnt > 40 || cnt % 2 == 0, true, seen);
        }
        if rep.samples.len() < 4 && n % 977 == shard {
            rep.sample(J::s(show_str(&name)));
        }
    };
    let ascii_only = !unicode_build();
    // 1. every BMP scalar value (every code point up to U+2FF in the ASCII-folding build) in three positions
    let top: u32 = if ascii_only { 0x300 } else { 0x1_0000 };
    let pos_seed = seed % 3;
    for cp in 1..top {
        let Some(c) = char::from_u32(cp) else { continue };
        if c == '/' {
            continue;
        }
        for pos in 0..3u64 {
            // quick tier: one position per code point (rotating with the seed), every position for ASCII/Latin
            if false && !thorough && cp >= 0x250 && (u64::from(cp) + pos_seed) % 3 != pos {
                continue;
            }
            let name = match pos {
                0 => format!("{}ab", c),
                1 => format!("a{}b", c),
                _ => format!("ab{}", c),
            };
            emit(name, false, rep, &mut cache, &mut seen);
        }
        if cp < 0x80 {
            emit(c.to_string(), true, rep, &mut cache, &mut seen);
            emit(format!("{}.{}", c, c), false, rep, &mut cache, &mut seen);
        }
    }
    // 2. astral samples (never representable in UCS-2)
    for _ in 0..if thorough { 4096 } else { 512 } {
        let cp = 0x1_0000 + rng.below(0x10_0000) as u32;
        if let Some(c) = char::from_u32(cp) {
            let name = match rng.below(3) {
                0 => format!("{}ab", c),
                1 => format!("a{}b", c),
                _ => format!("ab{}", c),
            };
            emit(name, false, rep, &mut cache, &mut seen);
        }
    }
    // 3. every length 0..=300 for 1-, 2- and 3-byte characters (and mixes that put the 255-byte limit inside a char)
    for len in 0..=300usize {
        for unit in ["a", "\u{e9}", "\u{4e2d}", "a\u{e9}", ". "] {
            if ascii_only && !unit.is_ascii() {
                continue;
            }
            let mut s = String::new();
            while s.chars().count() < len {
                s.push_str(unit);
            }
            let s: String = s.chars().take(len).collect();
            emit(s.clone(), false, rep, &mut cache, &mut seen);
            if len > 0 {
                // same length with a different first character class
                let t: String = std::iter::once('Z').chain(s.chars().skip(1)).collect();
                emit(t, len % 7 == 0, rep, &mut cache, &mut seen);
            }
        }
    }
    // 4. dots and spaces
    for k in 1..40usize {
        for t in [".".repeat(k), " ".repeat(k), format!("{}a", ".".repeat(k)), format!("a{}", ".".repeat(k)), format!("{}a", " ".repeat(k)), format!("a{}", " ".repeat(k)), format!("a{}b", ".".repeat(k)), format!("{} .", "x".repeat(k))] {
            if t == "." || t == ".." {
                continue;
            }
            emit(t, false, rep, &mut cache, &mut seen);
        }
    }
    // 5. case pairs / folding expansions
    let specials = ["stra\u{df}e", "STRASSE", "\u{149}x", "\u{fb01}le", "FILE", "\u{130}stanbul", "i\u{307}", "\u{3a3}\u{3c3}\u{3c2}", "\u{1e9e}", "\u{212a}elvin", "kelvin", "\u{1c5}", "\u{1c4}\u{1c6}", "\u{10400}", "\u{ff41}\u{ff21}"];
    for s in specials {
        if ascii_only && !s.is_ascii() {
            // in the ASCII-folding build these are plain distinct names: still must be stored losslessly
        }
        emit(s.to_string(), false, rep, &mut cache, &mut seen);
        emit(s.to_string(), true, rep, &mut cache, &mut seen);
    }
    if !ascii_only {
        for cp in 0x80..0x1_0000u32 {
            let Some(c) = char::from_u32(cp) else { continue };
            let up: Vec<char> = c.to_uppercase().collect();
            let lo: Vec<char> = c.to_lowercase().collect();
            if up.len() > 1 || lo.len() > 1 || up[0] != c {
                // character with a non-trivial case mapping: embed in a longer name
                emit(format!("x{}y{}z", c, c), cp % 5 == 0, rep, &mut cache, &mut seen);
            }
        }
    }
    // 6. random names over a mixed alphabet (valid and invalid), incl. names that look like generated aliases
    let alphabet: Vec<char> = "aB1 .~_-+$%'@`!(){}^#&,;=[]*?:|<>\"\\\u{e9}\u{df}\u{4e2d}\u{fffd}\u{1}\u{7f}".chars().collect();
    for _ in 0..if thorough { 1_000_000 } else { 6_000 } {
        let maxl = if rng.chance(1, 10) { 60 } else { 14 };
        let len = 1 + rng.usize_below(maxl);
        let s: String = (0..len).map(|_| alphabet[rng.usize_below(alphabet.len())]).filter(|c| *c != '/').collect();
        emit(s, rng.chance(1, 3), rep, &mut cache, &mut seen);
    }
    for s in ["LONGFI~1.TXT", "A~1", "~1", "AB1234~1.TXT", "CON", "nul.txt", "a.b.c.d.e.f", "TE527D~1.TXT"] {
        emit(s.to_string(), false, rep, &mut cache, &mut seen);
    }
}
