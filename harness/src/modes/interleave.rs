//! C03 (and C02 through the same monitors): chains that are interleaved cluster by cluster. Two or three files grow
//! alternately by whole clusters, so that the table is full of links whose values have "round" bit patterns (an even
//! entry pointing at cluster 256, 512, ...; links across sector borders of the table); then the volume is remounted,
//! more files are allocated into what is left and everything is read back and removed again. Every call runs under the
//! reference model and the independent fsck.
#![allow(dead_code)]

use crate::modes::c16::ListSource;
use crate::modes::sessmode::{unicode_build, VolCache};
use crate::modes::Report;
use crate::ops::{DirRef, Op};
use crate::sess::{run_session, SessCfg};
use crate::util::{fnv_of, Rng, J};
use crate::vol::VolCfg;
use crate::Args;

pub fn run(args: &Args, rep: &mut Report) {
    let seed = args.u64("seed", 1);
    let (shard, nshards) = args.shard();
    let thorough = args.str("tier", "quick") == "thorough";
    let sessions = args.u64("sessions", if thorough { 150 } else { 12 });
    let mut cache = VolCache::new();
    for k in 0..sessions {
        let id = k * nshards + shard;
        let mut rng = Rng::derive(seed, 0x171e, id);
        let vc = match rng.below(5) {
            0 | 1 => VolCfg { fat: 12, bps: 512, spc: 1, nfats: 2, root_entries: 64, clusters: *rng.pick(&[700u32, 1500, 4000]), extra: 0, garbage: rng.chance(1, 2), slack: 0, used_device: false },
            2 => VolCfg { fat: 12, bps: 1024, spc: 2, nfats: 1, root_entries: 64, clusters: 900, extra: 0, garbage: true, slack: 1, used_device: false },
            3 => VolCfg { fat: 16, bps: 512, spc: 1, nfats: 2, root_entries: 64, clusters: 4300, extra: 0, garbage: false, slack: 0, used_device: false },
            _ => VolCfg { fat: 32, bps: 512, spc: 1, nfats: 1, root_entries: 0, clusters: 65600, extra: 0, garbage: false, slack: 0, used_device: false },
        };
        let Ok((img, vb)) = cache.get(&vc) else { continue };
        let cs = usize::from(vc.bps) * usize::from(vc.spc);
        let nfiles = 2 + rng.usize_below(2);
        let r = DirRef::Root;
        let mut ops: Vec<Op> = Vec::new();
        for f in 0..nfiles {
            ops.push(Op::CreateFile { dir: r.clone(), path: format!("interleaved {}.bin", f), slot: Some(f) });
        }
        // strict alternation most of the time (that is what produces the round link values), random otherwise
        let strict = rng.chance(2, 3);
        let rounds = 150 + rng.usize_below(250);
        for i in 0..rounds {
            let f = if strict { i % nfiles } else { rng.usize_below(nfiles) };
            let n = if strict || rng.chance(3, 4) { 1 } else { 2 };
            ops.push(Op::Write { h: f, len: n * cs });
        }
        for f in 0..nfiles {
            ops.push(Op::Close { h: f });
        }
        ops.push(Op::Remount { how: (id % 2) as u8 });
        // allocate into the rest, free one of the interleaved files, allocate again
        ops.push(Op::CreateFile { dir: r.clone(), path: "after the remount.bin".into(), slot: Some(0) });
        ops.push(Op::Write { h: 0, len: cs * (4 + rng.usize_below(20)) });
        ops.push(Op::Close { h: 0 });
        ops.push(Op::Remove { dir: r.clone(), path: "interleaved 0.bin".into() });
        ops.push(Op::CreateFile { dir: r.clone(), path: "into the holes.bin".into(), slot: Some(1) });
        for _ in 0..(20 + rng.usize_below(60)) {
            ops.push(Op::Write { h: 1, len: cs });
        }
        ops.push(Op::Close { h: 1 });
        ops.push(Op::Remount { how: 0 });
        // read everything back (the model compares), then give everything back
        for name in ["interleaved 1.bin", "after the remount.bin", "into the holes.bin"] {
            ops.push(Op::OpenFile { dir: r.clone(), path: name.into(), slot: Some(2) });
            for _ in 0..6 {
                ops.push(Op::Read { h: 2, len: cs * 40 + 7 });
            }
            ops.push(Op::Seek { h: 2, whence: 2, off: -1 });
            ops.push(Op::Read { h: 2, len: 5 });
            ops.push(Op::Close { h: 2 });
        }
        ops.push(Op::Stats);
        for name in ["interleaved 1.bin", "after the remount.bin", "into the holes.bin"] {
            ops.push(Op::Remove { dir: r.clone(), path: name.into() });
        }
        ops.push(Op::Stats);
        let mut scfg = SessCfg::all(unicode_build());
        scfg.props = ["C01", "C02", "C03", "C05"].into_iter().collect();
        scfg.nhandles = 3;
        scfg.lib_walk = false;
        let mut src = ListSource { ops, i: 0 };
        let class = fnv_of(&[&vc.class(), "interleave"]);
        let o = run_session(&scfg, &img, vb, class, &mut src);
        rep.evaluations += o.counters.api_calls;
        rep.count("sessions", 1);
        rep.count("raw_decodes", o.counters.decodes);
        for d in &o.distinct {
            rep.distinct.insert(*d);
        }
        if k == 0 {
            rep.sample(J::obj().set("volume", vc.json()).set("files", J::u(nfiles as u64)).set("rounds", J::u(rounds as u64)).set("strict_alternation", J::Bool(strict)));
        }
        if let Some(v) = o.violation {
            let hist: Vec<String> = o.history.iter().rev().take(10).rev().map(|x| x.show()).collect();
            let d = format!("[interleaved chains on {}] {}", vc.label(), v.detail);
            let rj = J::obj()
                .set("argv", J::arr_of_str(vec!["interleave".to_string(), "--seed".into(), seed.to_string(), "--shard".into(), format!("{}/{}", shard, nshards), "--sessions".into(), (k + 1).to_string()]))
                .set("variant", J::s(crate::modes::sessmode::variant_name()))
                .set("volume", vc.json())
                .set("last_calls", J::arr_of_str(hist))
                .set("detail", J::s(d.clone()));
            rep.viol("C03", &format!("C03|interleave|{}", v.sig), &v.rule, &d, rj);
        }
    }
}
