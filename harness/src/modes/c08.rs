//! C08: spec-valid volumes made by an independent builder are read faithfully and minimally modified.
//! Also hosts the shared "walk through the crate vs. ground truth" comparison used by C13/C19/C20.
#![allow(dead_code)]

use std::collections::BTreeSet;
use std::panic::{catch_unwind, AssertUnwindSafe};

use crate::build::{build, Spec, TNode, Truth};
use crate::clock::Clock;
use crate::dev::{Image, MonDev};
use crate::fatck::{self, DecodeOpts, NodeKind};
use crate::gen::{GenCfg, RandomSource};
use crate::modes::sessmode::{shrink, unicode_build};
use crate::modes::Report;
use crate::sess::{enc_date, enc_dt, run_session, take_panic, FDir, Fs, SessCfg};
use crate::util::{fnv_of, show_units, Fnv, Rng, J};
use crate::Args;

/// expected `file_name()` units of an entry without a long name: 8.3 with NT lowercase flags, OEM -> U+FFFD
fn short_display_units(t: &TNode) -> Vec<u16> {
    let mut raw = t.sfn;
    if t.nt & 0x08 != 0 {
        raw[..8].make_ascii_lowercase();
    }
    if t.nt & 0x10 != 0 {
        raw[8..].make_ascii_lowercase();
    }
    fatck::short_display(&raw).iter().map(|b| if *b < 0x80 { u16::from(*b) } else { 0xFFFD }).collect()
}

/// Compare one directory (through the crate) with the builder's truth. Err((rule, detail)).
pub fn compare_dir(dir: &FDir<'_>, truth: &[TNode], path: &str, depth: u32, stats: &mut (u64, u64)) -> Result<(), (String, String)> {
    let mut seen = vec![false; truth.len()];
    for e in dir.iter() {
        let e = e.map_err(|e| ("iter-error".to_string(), format!("{}: Dir::iter failed: {:?}", path, e)))?;
        let short = e.short_file_name_as_bytes().to_vec();
        if depth > 0 && (short == b"." || short == b"..") {
            continue;
        }
        stats.0 += 1;
        let Some(i) = truth.iter().position(|t| fatck::short_display(&t.sfn) == short) else {
            return Err(("ghost-entry".into(), format!("{}: the library lists an entry with short name {:?} that the builder never wrote", path, String::from_utf8_lossy(&short))));
        };
        if seen[i] {
            return Err(("duplicate-entry".into(), format!("{}: entry {:?} listed twice", path, String::from_utf8_lossy(&short))));
        }
        seen[i] = true;
        let t = &truth[i];
        let who = format!("{}{}", path, String::from_utf8_lossy(&short));
        let long = e.long_file_name_as_ucs2_units().map(|u| u.to_vec());
        if long != t.long {
            return Err(("long-name".into(), format!("{}: long name read as {:?}, stored {:?}", who, long.as_ref().map(|l| show_units(l)), t.long.as_ref().map(|l| show_units(l)))));
        }
        #[cfg(not(feature = "v_noalloc"))]
        {
            let want: Vec<u16> = match &t.long {
                Some(l) => String::from_utf16_lossy(l).encode_utf16().collect(),
                None => short_display_units(t),
            };
            let got: Vec<u16> = e.file_name().encode_utf16().collect();
            if got != want {
                return Err(("file-name".into(), format!("{}: file_name() = \"{}\", expected \"{}\"", who, show_units(&got), show_units(&want))));
            }
        }
        if e.attributes().bits() != t.attr & 0x3F {
            return Err(("attributes".into(), format!("{}: attributes {:#x}, stored {:#x}", who, e.attributes().bits(), t.attr)));
        }
        if e.is_dir() != t.is_dir || e.is_file() == t.is_dir {
            return Err(("kind".into(), format!("{}: is_dir {}", who, e.is_dir())));
        }
        let want_len = if t.is_dir { 0 } else { t.content.len() as u64 };
        if e.len() != want_len {
            return Err(("size".into(), format!("{}: len {} stored {}", who, e.len(), want_len)));
        }
        let (cd, ct, ctenth) = enc_dt(e.created());
        let (md, mt, _) = enc_dt(e.modified());
        let ad = enc_date(e.accessed());
        if (cd, ct, ctenth, md, mt, ad) != (t.cdate, t.ctime, t.ctenth, t.mdate, t.mtime, t.adate) {
            return Err((
                "timestamps".into(),
                format!("{}: stamps read as {:#x}/{:#x}/{} {:#x}/{:#x} {:#x}, stored {:#x}/{:#x}/{} {:#x}/{:#x} {:#x}", who, cd, ct, ctenth, md, mt, ad, t.cdate, t.ctime, t.ctenth, t.mdate, t.mtime, t.adate),
            ));
        }
        if t.is_dir {
            let sub = e.to_dir();
            compare_dir(&sub, &t.children, &format!("{}/", who), depth + 1, stats)?;
        } else {
            let mut f = e.to_file();
            let mut data = Vec::new();
            let mut buf = vec![0u8; 7000];
            loop {
                match fatfs::Read::read(&mut f, &mut buf) {
                    Ok(0) => break,
                    Ok(n) => data.extend_from_slice(&buf[..n]),
                    Err(e) => return Err(("read-error".into(), format!("{}: read failed: {:?}", who, e))),
                }
                if data.len() > t.content.len() + 100_000 {
                    break;
                }
            }
            stats.1 += data.len() as u64;
            if data != t.content {
                let i = data.iter().zip(t.content.iter()).position(|(a, b)| a != b).unwrap_or(data.len().min(t.content.len()));
                return Err(("content".into(), format!("{}: {} bytes read, {} stored, first difference at {} (chain {:?})", who, data.len(), t.content.len(), i, &t.chain[..t.chain.len().min(6)])));
            }
            // extents must be the builder's chain
            let mut f2 = e.to_file();
            let mut ext = Vec::new();
            for x in f2.extents() {
                match x {
                    Ok(x) => ext.push((x.offset, x.size)),
                    Err(e) => return Err(("extents-error".into(), format!("{}: extents failed: {:?}", who, e))),
                }
            }
            if ext.len() != t.chain.len() {
                return Err(("extents".into(), format!("{}: {} extents, chain has {} clusters", who, ext.len(), t.chain.len())));
            }
        }
    }
    if let Some(i) = seen.iter().position(|s| !*s) {
        return Err(("missing-entry".into(), format!("{}: entry {:?} ({:?}) written by the builder is not listed", path, String::from_utf8_lossy(&truth[i].sfn), truth[i].long.as_ref().map(|l| show_units(l)))));
    }
    Ok(())
}

/// builder truth vs. independent decoder (harness self-check). Err = description of the disagreement
pub fn cross_check(img: &Image, truth: &Truth) -> Result<(), String> {
    let dec = fatck::decode(img, &DecodeOpts { read_content: true, unicode_fold: true, ..Default::default() })?;
    for d in &dec.diags {
        if !d.code.starts_with("I7-orphan") && d.code != "I7-order" {
            return Err(format!("decoder reports [{}] {} on a builder image", d.code, d.msg));
        }
    }
    fn cmp(d: &fatck::DDir, t: &[TNode], path: &str) -> Result<(), String> {
        let live: Vec<&fatck::DNode> = d.nodes.iter().filter(|n| matches!(n.kind, NodeKind::File { .. } | NodeKind::Dir(_))).collect();
        if live.len() != t.len() {
            return Err(format!("{}: decoder sees {} entries, builder wrote {}", path, live.len(), t.len()));
        }
        for n in live {
            let Some(tn) = t.iter().find(|x| x.sfn == n.e.sfn) else {
                return Err(format!("{}: decoder sees {:?}", path, String::from_utf8_lossy(&n.e.sfn)));
            };
            if n.e.lfn != tn.long {
                return Err(format!("{}{:?}: long names differ", path, String::from_utf8_lossy(&n.e.sfn)));
            }
            match &n.kind {
                NodeKind::File { content, chain } => {
                    if content.as_deref() != Some(&tn.content[..]) || chain != &tn.chain {
                        return Err(format!("{}{:?}: content/chain differ", path, String::from_utf8_lossy(&n.e.sfn)));
                    }
                }
                NodeKind::Dir(sub) => cmp(sub, &tn.children, &format!("{}{}/", path, String::from_utf8_lossy(&tn.sfn)))?,
                _ => {}
            }
        }
        Ok(())
    }
    cmp(&dec.root, &truth.root, "/")?;
    if dec.free_count != u64::from(truth.free_clusters) {
        return Err(format!("decoder counts {} free clusters, builder {}", dec.free_count, truth.free_clusters));
    }
    Ok(())
}

/// a user supplied OEM code page: bytes 0x80..=0xFF <-> U+0100..U+017F
#[derive(Debug, Clone, Copy)]
pub struct UpConv;

impl fatfs::OemCpConverter for UpConv {
    fn decode(&self, b: u8) -> char {
        if b < 0x80 {
            b as char
        } else {
            char::from_u32(0x100 + u32::from(b - 0x80)).unwrap()
        }
    }
    fn encode(&self, c: char) -> Option<u8> {
        let u = c as u32;
        if u < 0x80 {
            Some(u as u8)
        } else if (0x100..0x180).contains(&u) {
            Some((u - 0x100) as u8 + 0x80)
        } else {
            None
        }
    }
}

/// second mount with a custom OEM converter: short names must be decoded with it and be found under that spelling
fn oem_pass(img: &Image, truth: &Truth) -> Result<(), (String, String)> {
    use fatfs::OemCpConverter;
    let dev = MonDev::new(img.clone());
    dev.set_logging(false, false);
    let fs: fatfs::FileSystem<MonDev, Clock, UpConv> = fatfs::FileSystem::new(dev.handle(), fatfs::FsOptions::new().time_provider(Clock::new(300)).oem_cp_converter(UpConv)).map_err(|e| ("mount-failed".to_string(), format!("{:?}", e)))?;
    let root = fs.root_dir();
    let res = (|| {
        for t in &truth.root {
            if t.long.is_some() {
                continue;
            }
            let disp: String = fatck::short_display(&t.sfn).iter().map(|b| UpConv.decode(*b)).collect();
            let r = if t.is_dir { root.open_dir(&disp).map(|_| ()) } else { root.open_file(&disp).map(|_| ()) };
            if let Err(e) = r {
                return Err(("oem-lookup".to_string(), format!("entry {:?} is not found under its name \"{}\" decoded with the configured OEM converter: {:?}", t.sfn, crate::util::show_str(&disp), e)));
            }
        }
        #[cfg(not(feature = "v_noalloc"))]
        for e in root.iter() {
            let e = e.map_err(|e| ("iter-error".to_string(), format!("{:?}", e)))?;
            let want: String = e.short_file_name_as_bytes().iter().map(|b| UpConv.decode(*b)).collect();
            if e.short_file_name() != want {
                return Err(("oem-decode".to_string(), format!("short_file_name() = \"{}\", configured converter gives \"{}\"", crate::util::show_str(&e.short_file_name()), crate::util::show_str(&want))));
            }
        }
        Ok(())
    })();
    drop(root);
    drop(fs);
    res
}

pub fn mount(img: &Image) -> (MonDev, Result<Fs, fatfs::Error<crate::dev::DevError>>) {
    let dev = MonDev::new(img.clone());
    dev.set_logging(true, false);
    let r = fatfs::FileSystem::new(dev.handle(), fatfs::FsOptions::new().time_provider(Clock::new(300)));
    (dev, r)
}

pub fn run(args: &Args, rep: &mut Report) {
    let seed = args.u64("seed", 1);
    let (shard, nshards) = args.shard();
    let thorough = args.str("tier", "quick") == "thorough";
    let images = args.u64("images", if thorough { 3000 } else { 150 });
    let mut classes: BTreeSet<String> = BTreeSet::new();
    for k in 0..images {
        let id = k * nshards + shard;
        let mut rng = Rng::derive(seed, 0xC08, id);
        let spec = Spec::random(&mut rng);
        let (img, truth) = match build(&spec, &mut rng) {
            Ok(x) => x,
            Err(_) => {
                rep.count("spec_rejected", 1);
                continue;
            }
        };
        if let Err(e) = cross_check(&img, &truth) {
            rep.count("builder_decoder_disagree", 1);
            if rep.inconclusive.len() < 5 {
                rep.inconclusive.push(format!("builder/decoder disagree on {}: {}", spec.label(), e));
            }
            continue;
        }
        classes.insert(spec.class());
        rep.count("images", 1);
        let rj = |detail: &str| {
            J::obj()
                .set("argv", J::arr_of_str(vec!["c08".to_string(), "--seed".into(), seed.to_string(), "--shard".into(), format!("{}/{}", shard, nshards), "--images".into(), (k + 1).to_string()]))
                .set("variant", J::s(crate::modes::sessmode::variant_name()))
                .set("spec", spec.json())
                .set("image_id", J::u(id))
                .set("detail", J::s(detail))
        };
        // ---------------- read side
        let mut stats = (0u64, 0u64);
        let truth_ref = &truth;
        let r = catch_unwind(AssertUnwindSafe(|| -> Result<(), (String, String)> {
            let (dev, fs) = mount(&img);
            let fs = fs.map_err(|e| ("mount-failed".to_string(), format!("valid foreign volume {} rejected: {:?}", spec.label(), e)))?;
            let res = (|| {
                compare_dir(&fs.root_dir(), &truth_ref.root, "/", 0, &mut stats)?;
                let lbl = fs.read_volume_label_from_root_dir_as_bytes().map_err(|e| ("label-error".to_string(), format!("{:?}", e)))?;
                if lbl != truth_ref.label {
                    return Err(("label".to_string(), format!("root label read as {:?}, stored {:?}", lbl, truth_ref.label)));
                }
                #[cfg(not(feature = "v_noalloc"))]
                {
                    let l2 = fs.read_volume_label_from_root_dir().map_err(|e| ("label-error".to_string(), format!("{:?}", e)))?;
                    let want = truth_ref.label.map(|l| String::from_utf8_lossy(&l).trim_end().to_string());
                    if l2 != want || fs.volume_label() != "BPB LABEL" {
                        return Err(("label-string".to_string(), format!("labels as strings: root {:?} (stored {:?}), BPB {:?}", l2, want, fs.volume_label())));
                    }
                }
                oem_pass(&img, truth_ref)?;
                if fs.volume_label_as_bytes() != b"BPB LABEL" || fs.volume_id() != 0xCAFE_F00D {
                    return Err(("bpb-label".to_string(), format!("BPB label {:?} id {:#x}", fs.volume_label_as_bytes(), fs.volume_id())));
                }
                let st = fs.stats().map_err(|e| ("stats-error".to_string(), format!("{:?}", e)))?;
                if st.total_clusters() != truth_ref.total_clusters || st.cluster_size() != truth_ref.cluster_size {
                    return Err(("geometry".to_string(), format!("stats: {} clusters of {} bytes, built {} of {}", st.total_clusters(), st.cluster_size(), truth_ref.total_clusters, truth_ref.cluster_size)));
                }
                if st.free_clusters() != truth_ref.free_clusters {
                    return Err(("free-count".to_string(), format!("stats().free_clusters() = {}, the volume has {} free clusters (FS-info mode {}, status {:#x})", st.free_clusters(), truth_ref.free_clusters, spec.fsinfo_mode, spec.status_byte)));
                }
                let fl = fs.read_status_flags().map_err(|e| ("flags-error".to_string(), format!("{:?}", e)))?;
                if fl.dirty() != (spec.status_byte & 1 != 0) || fl.io_error() != (spec.status_byte & 2 != 0) {
                    return Err(("status-flags".to_string(), format!("flags dirty={} io_error={} for status byte {:#x}", fl.dirty(), fl.io_error(), spec.status_byte)));
                }
                Ok(())
            })();
            // a pure read session must not have written (counted before the volume object is destroyed: its
            // destructor may legitimately store a recomputed FAT32 free count, C13's documented exception)
            let wrote = dev.0.borrow().n_writes > 0;
            drop(fs);
            if wrote && res.is_ok() {
                return Err(("read-session-wrote".to_string(), "device writes during a read-only walk".to_string()));
            }
            res
        }));
        rep.evaluations += 1 + stats.0;
        rep.count("entries_compared", stats.0);
        rep.count("content_bytes_compared", stats.1);
        let mut f = Fnv::new();
        f.str(&spec.class()).u64(u64::from(spec.status_byte)).u64(u64::from(spec.fsinfo_mode)).u64(u64::from(spec.high_nibbles)).u64(u64::from(spec.eoc_variants)).u64(u64::from(spec.fragmented)).u64(stats.0);
        rep.distinct.insert(f.get());
        match r {
            Ok(Ok(())) => {}
            Ok(Err((rule, detail))) => {
                let d = format!("[{}] {}", spec.label(), detail);
                rep.viol("C08", &format!("C08|read|{}", rule), &rule, &d, rj(&d));
                continue;
            }
            Err(_) => {
                let (cls, full) = take_panic();
                let d = format!("[{}] reading a valid foreign volume panicked: {}", spec.label(), full);
                rep.viol("C08", &format!("C08|read|panic|{}", cls), "panic", &d, rj(&d));
                continue;
            }
        }
        // ---------------- read side again, as a random walk: seeks, short / empty / boundary reads and extents on the
        // foreign (fragmented, backwards) chains, every result judged against the ground truth
        {
            let mut scfg = SessCfg::all(unicode_build());
            scfg.props = ["C01", "C02", "C04"].into_iter().collect();
            scfg.tolerate_baseline_diags = true;
            scfg.nhandles = 3;
            scfg.lib_walk = false;
            scfg.short_dev = if rng.chance(1, 4) { Some(rng.next_u64()) } else { None };
            let mut g = GenCfg::default();
            g.read_only = true;
            g.max_ops = 20 + rng.usize_below(30);
            g.invalid_names = false;
            let mut src = RandomSource::new(seed, 0xC08B, id, g);
            let o = run_session(&scfg, &img, truth.vol_bytes, fnv_of(&[&spec.class(), "walk"]), &mut src);
            rep.evaluations += o.counters.api_calls;
            rep.count("read_walk_calls", o.counters.api_calls);
            for d in &o.distinct {
                rep.distinct.insert(*d);
            }
            if let Some(v) = o.violation {
                let hist: Vec<String> = o.history.iter().rev().take(12).rev().map(|x| x.show()).collect();
                let d = format!("[read walk on {}] {}", spec.label(), v.detail);
                let mut rj = rj(&d);
                rj.put("history", J::arr_of_str(hist));
                rep.viol("C08", &format!("C08|walk|{}", v.sig), &v.rule, &d, rj);
            }
        }
        // ---------------- write side: a few mutations under all session monitors
        let mut scfg = SessCfg::all(unicode_build());
        scfg.props = ["C01", "C02", "C03", "C04", "C05", "C10", "C11", "C18"].into_iter().collect();
        scfg.tolerate_baseline_diags = true;
        scfg.nhandles = 3;
        scfg.short_dev = if rng.chance(1, 4) { Some(rng.next_u64()) } else { None };
        let mut g = GenCfg::default();
        g.max_ops = 3 + rng.usize_below(12);
        g.w_remount = 4;
        g.invalid_names = false;
        g.unicode_names = false;
        g.dots = false;
        g.max_file_clusters = 3;
        let class = fnv_of(&[&spec.class(), "mut"]);
        let mut src = RandomSource::new(seed, 0xC08A, id, g);
        let o = run_session(&scfg, &img, truth.vol_bytes, class, &mut src);
        rep.evaluations += o.counters.api_calls;
        rep.count("mutation_calls", o.counters.api_calls);
        rep.count("device_writes_classified", o.counters.writes_classified);
        for d in &o.distinct {
            rep.distinct.insert(*d);
        }
        for ((kind, ek), n) in &o.counters.op_outcomes {
            rep.count(&format!("outcome:{}:{}", kind, ek), *n);
        }
        if let Some(v) = o.violation {
            let (small, v2, _) = shrink(&scfg, &img, truth.vol_bytes, class, &o.history[..(v.op_index + 1).min(o.history.len())], &v.sig, 60);
            let v = v2.unwrap_or(v);
            let d = format!("[{}] after modifying a foreign volume: {}", spec.label(), v.detail);
            let mut j = rj(&d);
            j.put("minimised_ops", crate::ops::ops_json(&small));
            rep.viol("C08", &format!("C08|write|{}", v.sig), &v.rule, &d, j);
        }
        if rep.samples.len() < 3 {
            rep.sample(J::obj().set("spec", spec.json()).set("entries", J::u(stats.0)).set("mutations", crate::ops::ops_json(&o.history)));
        }
    }
    // the two Linux-made images of the repository: structure known from scripts/create-test-img.sh
    if shard == 0 {
        for name in ["fat12.img", "fat16.img"] {
            let p = format!("{}/resources/{}", args.str("repo", "/repo"), name);
            if let Ok(bytes) = std::fs::read(&p) {
                if bytes.is_empty() {
                    continue;
                }
                let img = Image::from_bytes(&bytes);
                rep.evaluations += 1;
                match check_linux_image(&img) {
                    Ok(n) => rep.count("linux_image_entries", n),
                    Err(e) => {
                        let d = format!("resources/{}: {}", name, e);
                        rep.viol("C08", "C08|read|linux-image", "linux-image", &d, J::obj().set("argv", J::arr_of_str(vec!["c08"])).set("detail", J::s(d.clone())));
                    }
                }
            }
        }
    }
    rep.extra.push(("config_classes".into(), J::arr_of_str(classes.into_iter())));
}

/// mkfs.vfat images from scripts/create-test-img.sh: decoder and crate must agree, contents are known
fn check_linux_image(img: &Image) -> Result<u64, String> {
    let dec = fatck::decode(img, &DecodeOpts { read_content: true, unicode_fold: true, ..Default::default() })?;
    if !dec.diags.is_empty() {
        return Err(format!("decoder diagnostics on a Linux-made image: {:?}", dec.diags));
    }
    let mut flat = Vec::new();
    fatck::flatten(&dec.root, &mut Vec::new(), &mut flat);
    let names: Vec<String> = flat.iter().map(|f| f.path.iter().map(|c| String::from_utf16_lossy(c)).collect::<Vec<_>>().join("/")).collect();
    for want in ["long.txt", "short.txt", "very/long/path/test.txt", "very-long-dir-name/very-long-file-name.txt"] {
        if !names.iter().any(|n| n == want) {
            return Err(format!("decoder does not find {}", want));
        }
    }
    let (_dev, fs) = mount(img);
    let fs = fs.map_err(|e| format!("mount: {:?}", e))?;
    let mut n = 0;
    for want in ["long.txt", "short.txt", "very/long/path/test.txt", "very-long-dir-name/very-long-file-name.txt"] {
        let mut f = fs.root_dir().open_file(want).map_err(|e| format!("open {}: {:?}", want, e))?;
        let mut data = Vec::new();
        let mut buf = [0u8; 4096];
        loop {
            match fatfs::Read::read(&mut f, &mut buf) {
                Ok(0) => break,
                Ok(k) => data.extend_from_slice(&buf[..k]),
                Err(e) => return Err(format!("read {}: {:?}", want, e)),
            }
        }
        let reps = if want == "long.txt" { 1000 } else { 1 };
        let expect: Vec<u8> = "Rust is cool!\n".repeat(reps).into_bytes();
        if data != expect {
            return Err(format!("{}: {} bytes read, {} expected", want, data.len(), expect.len()));
        }
        n += 1;
    }
    let lbl = fs.read_volume_label_from_root_dir_as_bytes().map_err(|e| format!("{:?}", e))?;
    if lbl.map(|l| l.to_vec()) != Some(b"Test!      ".to_vec()) {
        return Err(format!("label {:?}", lbl));
    }
    drop(fs);
    Ok(n)
}
