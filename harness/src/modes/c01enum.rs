//! C01 (enumerated part): every sequence of three namespace operations over a small alphabet of paths, from an
//! empty volume, under the reference-tree / raw-decode / library-listing monitors.
#![allow(dead_code)]

use crate::modes::sessmode::{unicode_build, VolCache};
use crate::modes::Report;
use crate::ops::{DirRef, Op};
use crate::sess::{run_session, SessCfg, VecSource};
use crate::util::{fnv_of, Fnv, J};
use crate::vol::VolCfg;
use crate::Args;

pub fn alphabet() -> Vec<Op> {
    let paths = ["a", "B.TXT", "a long name, three slots needed.text", "A LONG NAME, THREE SLOTS NEEDED.TEXT", "d", "d/a", "d/e", "d/e/f"];
    let extra = ["x:y", ""];
    let mut ops = Vec::new();
    let r = DirRef::Root;
    for p in paths.iter().chain(extra.iter()) {
        ops.push(Op::CreateFile { dir: r.clone(), path: p.to_string(), slot: None });
        ops.push(Op::CreateDir { dir: r.clone(), path: p.to_string(), slot: None });
        ops.push(Op::Remove { dir: r.clone(), path: p.to_string() });
    }
    for p in paths.iter() {
        ops.push(Op::OpenFile { dir: r.clone(), path: p.to_string(), slot: None });
        ops.push(Op::OpenDir { dir: r.clone(), path: p.to_string(), slot: None });
    }
    for s in paths.iter() {
        for d in paths.iter().chain(extra.iter().take(1)) {
            ops.push(Op::Rename { sdir: r.clone(), src: s.to_string(), ddir: r.clone(), dst: d.to_string() });
        }
    }
    ops
}

pub fn run(args: &Args, rep: &mut Report) {
    let (shard, nshards) = args.shard();
    let thorough = args.str("tier", "quick") == "thorough";
    let ops = alphabet();
    let n = ops.len() as u64;
    let mut cache = VolCache::new();
    let widths: Vec<(u8, u64)> = if thorough { vec![(12, 1), (16, 1), (32, 1)] } else { vec![(12, 2), (16, 12), (32, 12)] };
    rep.extra.push(("alphabet_size".into(), J::u(n)));
    for (fat, sample) in widths {
        let vc = VolCfg { fat, bps: 512, spc: 1, nfats: 2, root_entries: if fat == 32 { 0 } else { 32 }, clusters: match fat { 12 => 64, 16 => 4090, _ => 65530 }, extra: 0, garbage: true, slack: 0, used_device: false };
        let Ok((img, vb)) = cache.get(&vc) else { continue };
        let class = fnv_of(&[&vc.class(), "enum"]);
        let mut scfg = SessCfg::all(unicode_build());
        scfg.props = ["C01", "C03"].into_iter().collect();
        scfg.nhandles = 1;
        scfg.short_dev = if fat == 16 { Some(0x51) } else { None };
        let total = n * n * n;
        let mut idx = shard;
        // a first op that fails on the empty tree leaves the empty tree: sequences are still executed, but the
        // distinct counter only counts distinct (state, op, outcome) tuples
        while idx < total {
            if (idx / nshards) % sample == 0 {
                let seq = vec![ops[(idx / (n * n)) as usize].clone(), ops[((idx / n) % n) as usize].clone(), ops[(idx % n) as usize].clone()];
                let mut src = VecSource::new(seq);
                let o = run_session(&scfg, &img, vb, class, &mut src);
                rep.evaluations += o.counters.api_calls;
                rep.count("sequences", 1);
                for d in &o.distinct {
                    rep.distinct.insert(*d);
                }
                for ((k, ek), c) in &o.counters.op_outcomes {
                    rep.count(&format!("outcome:{}:{}", k, ek), *c);
                }
                if rep.samples.len() < 3 && idx % 100_003 == shard {
                    rep.sample(crate::ops::ops_json(&o.history));
                }
                if let Some(v) = o.violation {
                    let mut f = Fnv::new();
                    f.str(&v.sig);
                    let d = format!("[FAT{} enumeration] {}", fat, v.detail);
                    let rj = J::obj()
                        .set("argv", J::arr_of_str(vec!["c01enum".to_string()]))
                        .set("variant", J::s(crate::modes::sessmode::variant_name()))
                        .set("volume", vc.json())
                        .set("minimised_ops", crate::ops::ops_json(&o.history[..(v.op_index + 1).min(o.history.len())]))
                        .set("detail", J::s(d.clone()));
                    rep.viol(v.prop, &v.sig, &v.rule, &d, rj);
                }
            }
            idx += nshards;
        }
        rep.extra.push((format!("fat{}_sequences_total", fat), J::u(total)));
        rep.extra.push((format!("fat{}_sampling", fat), J::s(if sample == 1 { "exhaustive".to_string() } else { format!("every {}th", sample) })));
    }
}
