//! C20: large volumes - 64-bit addressing, last clusters, allocation wrap-around. Sparse devices of up to 16 TiB
//! are laid down directly (BPB, FS-info, a handful of FAT entries) and driven by short monitored histories.
#![allow(dead_code)]

use crate::dev::Image;
use crate::fatck;
use crate::gen::{GenCfg, RandomSource};
use crate::modes::sessmode::unicode_build;
use crate::modes::Report;
use crate::ops::{DirRef, Op};
use crate::sess::{run_session, SessCfg, VecSource};
use crate::util::{fnv_of, Rng, J};
use crate::Args;

#[derive(Clone, Debug)]
pub struct BigSpec {
    pub bps: u32,
    pub spc: u32,
    pub total_sectors: u32,
    pub nfats: u32,
    /// hint position: clusters before the last one (0 = last, 1 = last-1), or absolute byte mark
    pub hint: Hint,
    /// mark every cluster from the hint to the end as used (forces the scan to wrap)
    pub tail_used: bool,
    /// leave only the very last cluster free at/after the hint
    pub only_last_free: bool,
    pub count_known: bool,
    /// where the root directory starts: 0 = cluster 2, 1 = the very last cluster, 2 = the last but one
    pub root_at_end: u8,
}

#[derive(Clone, Debug)]
pub enum Hint {
    FromEnd(u32),
    PastEnd(u32),
    AtByte(u64),
    None,
}

impl BigSpec {
    pub fn label(&self) -> String {
        format!("fat32-bps{}-spc{}-sectors{:#x}-f{}-hint{:?}{}{}{}", self.bps, self.spc, self.total_sectors, self.nfats, self.hint, if self.tail_used { "-tailused" } else { "" }, if self.only_last_free { "-onlylastfree" } else { "" }, if self.count_known { "" } else { "-nocount" }) + match self.root_at_end { 0 => "", 1 => "-root@last", _ => "-root@last-1" }
    }
}

/// lay down an (almost) empty FAT32 volume without zero-filling anything
pub fn big_image(s: &BigSpec) -> Result<(Image, u64, fatck::Geo), String> {
    let bps = u64::from(s.bps);
    let reserved = 32u64;
    let total = if s.total_sectors == 0 {
        // as many clusters as FAT32 can number
        let clusters = 0x0FFF_FFF4u64;
        let spf = ((clusters + 2) * 4 + bps - 1) / bps;
        reserved + u64::from(s.nfats) * spf + clusters * u64::from(s.spc)
    } else {
        u64::from(s.total_sectors)
    };
    if total > u64::from(u32::MAX) {
        return Err("too many sectors".into());
    }
    // solve spf: clusters = (total - reserved - nfats*spf) / spc ; spf*bps/4 >= clusters + 2
    let mut spf = 1u64;
    for _ in 0..64 {
        let clusters = (total - reserved - u64::from(s.nfats) * spf) / u64::from(s.spc);
        let need = ((clusters + 2) * 4 + bps - 1) / bps;
        if need == spf {
            break;
        }
        spf = need;
    }
    let clusters = (total - reserved - u64::from(s.nfats) * spf) / u64::from(s.spc);
    if clusters < 65525 || clusters > 0x0FFF_FFF4 {
        return Err(format!("{} clusters not FAT32", clusters));
    }
    let vol_bytes = total * bps;
    let mut img = Image::new(vol_bytes + 8192);
    // sentinel after the declared end
    img.write(vol_bytes, &vec![crate::vol::SENTINEL; 8192]);
    let mut bs = vec![0u8; 512];
    bs[0] = 0xEB;
    bs[1] = 0x58;
    bs[2] = 0x90;
    bs[3..11].copy_from_slice(b"BIGVOL  ");
    bs[11..13].copy_from_slice(&(s.bps as u16).to_le_bytes());
    bs[13] = s.spc as u8;
    bs[14..16].copy_from_slice(&(reserved as u16).to_le_bytes());
    bs[16] = s.nfats as u8;
    bs[21] = 0xF8;
    bs[24..26].copy_from_slice(&63u16.to_le_bytes());
    bs[26..28].copy_from_slice(&255u16.to_le_bytes());
    bs[32..36].copy_from_slice(&(total as u32).to_le_bytes());
    bs[36..40].copy_from_slice(&(spf as u32).to_le_bytes());
    // (patched below once the last cluster number is known)
    bs[44..48].copy_from_slice(&2u32.to_le_bytes());
    bs[48..50].copy_from_slice(&1u16.to_le_bytes());
    bs[50..52].copy_from_slice(&6u16.to_le_bytes());
    bs[64] = 0x80;
    bs[66] = 0x29;
    bs[67..71].copy_from_slice(&0xB16B_00B5u32.to_le_bytes());
    bs[71..82].copy_from_slice(b"BIG VOLUME ");
    bs[82..90].copy_from_slice(b"FAT32   ");
    bs[510] = 0x55;
    bs[511] = 0xAA;
    img.write(0, &bs);
    img.write(6 * bps, &bs);
    let g = fatck::geo_of(&img)?;
    let last = g.max_cluster() as u32;
    let set = |img: &mut Image, c: u32, v: u32| {
        for copy in 0..g.nfats {
            img.set_u32(g.fat_off(copy) + u64::from(c) * 4, v);
        }
    };
    set(&mut img, 0, 0x0FFF_FFF8);
    set(&mut img, 1, 0x0FFF_FFFF);
    let root = match s.root_at_end {
        0 => 2,
        1 => last,
        _ => last - 1,
    };
    set(&mut img, root, 0x0FFF_FFFF);
    if root != 2 {
        img.set_u32(44, root);
        img.set_u32(6 * bps + 44, root);
    }
    let hint: Option<u32> = match s.hint {
        Hint::FromEnd(n) => Some(last - n),
        Hint::PastEnd(n) => Some(last + n),
        Hint::AtByte(b) => Some((((b.saturating_sub(g.data_off())) / g.cluster_size) as u32 + 2).min(last)),
        Hint::None => None,
    };
    let mut used = 1u64;
    if let Some(h) = hint {
        if h <= last {
            if s.tail_used {
                for c in h..=last {
                    set(&mut img, c, 0x0FFF_FFF7);
                    used += 1;
                }
            } else if s.only_last_free {
                for c in h..last {
                    set(&mut img, c, 0x0FFF_FFF7);
                    used += 1;
                }
            }
        }
    }
    let fo = bps;
    img.set_u32(fo, 0x4161_5252);
    img.set_u32(fo + 484, 0x6141_7272);
    img.set_u32(fo + 488, if s.count_known { (clusters - used) as u32 } else { 0xFFFF_FFFF });
    img.set_u32(fo + 492, hint.unwrap_or(0xFFFF_FFFF));
    img.set_u32(fo + 508, 0xAA55_0000);
    Ok((img, vol_bytes, g))
}

pub fn specs(thorough: bool) -> Vec<BigSpec> {
    let mut v = Vec::new();
    let geos: Vec<(u32, u32, u32)> = vec![
        // (bps, spc, total sectors)
        (512, 8, (1 << 23) + 1),          // just over 4 GiB
        (512, 64, 1 << 31),               // 1 TiB
        (512, 64, u32::MAX),              // 2 TiB - 512
        (512, 128, u32::MAX),             // 2 TiB, 64 KiB clusters
        (512, 16, u32::MAX),              // 2 TiB, 8 KiB clusters: 2^28-ish entries
        (4096, 16, u32::MAX),             // 16 TiB: cluster count close to the FAT32 limit
        (4096, 1, 0),                     // 4 KiB sectors, one sector per cluster, the FAT32 cluster limit
        (512, 1, 0),                      // 512-byte clusters at the cluster limit: FAT with 2^28 entries
    ];
    for (bps, spc, total) in geos {
        let hints = vec![
            (Hint::FromEnd(0), false, false),
            (Hint::FromEnd(0), true, false),
            (Hint::FromEnd(1), false, true),
            (Hint::FromEnd(1), true, false),
            (Hint::FromEnd(5), true, false),
            (Hint::PastEnd(1), false, false),
            (Hint::PastEnd(2), false, false),
            (Hint::AtByte(4 << 30), false, false),
            (Hint::AtByte(1 << 40), false, false),
            (Hint::None, false, false),
        ];
        for (i, (h, tail, only)) in hints.into_iter().enumerate() {
            if !thorough && i % 2 == 1 && bps == 512 && spc == 128 {
                continue;
            }
            v.push(BigSpec { bps, spc, total_sectors: total, nfats: if i % 3 == 0 { 1 } else { 2 }, hint: h, tail_used: tail, only_last_free: only, count_known: !(i % 4 == 3 && total == (1 << 23) + 1), root_at_end: 0 });
        }
        // the root directory itself in the last clusters of the volume
        for r in [1u8, 2] {
            if thorough || (bps == 512 && spc != 128) {
                v.push(BigSpec { bps, spc, total_sectors: total, nfats: 2, hint: if r == 1 { Hint::None } else { Hint::FromEnd(3) }, tail_used: false, only_last_free: false, count_known: r == 1, root_at_end: r });
            }
        }
    }
    v
}

/// volumes made by the crate's own formatter at large sizes (zero-fill is elided by the sparse device)
fn formatted(thorough: bool) -> Vec<(String, Image, u64)> {
    let mut v = Vec::new();
    let mut list: Vec<(u16, u32, Option<u32>)> = vec![(512, 1 << 24, None), (4096, 1 << 23, Some(32768))];
    if thorough {
        list.extend([(512, u32::MAX, Some(32768)), (512, 1 << 31, None), (4096, u32::MAX, Some(524_288)), (512, 300_000_000, Some(2048))]);
    }
    for (bps, total, bpc) in list {
        let mut o = crate::modes::c06::FOpts::default_for(total);
        o.bps = bps;
        o.bpc = bpc;
        if let (crate::modes::c06::FResult::Ok(img), _) = crate::modes::c06::do_format(&o, false, 4096) {
            v.push((format!("format_volume bps{} sectors{:#x} cluster{:?}", bps, total, bpc), img, u64::from(total) * u64::from(bps)));
        }
    }
    v
}

pub fn run(args: &Args, rep: &mut Report) {
    let seed = args.u64("seed", 1);
    let (shard, nshards) = args.shard();
    let thorough = args.str("tier", "quick") == "thorough";
    let mut n = 0u64;
    // ---- formatter-made large volumes: same scripted history
    if shard == nshards - 1 {
        for (label, img, vol_bytes) in formatted(thorough) {
            let Ok(g) = fatck::geo_of(&img) else {
                rep.viol("C20", "C20|formatted-volume-unparseable", "geometry", &format!("{}: independent parse failed", label), J::obj().set("argv", J::arr_of_str(vec!["c20"])));
                continue;
            };
            let cs = g.cluster_size as usize;
            let mut scfg = SessCfg::all(unicode_build());
            scfg.props = ["C01", "C02", "C03", "C04", "C05", "C10", "C11", "C20"].into_iter().collect();
            scfg.budget = Some(3_000_000_000);
            let ops = vec![
                Op::CreateFile { dir: DirRef::Root, path: "on a formatted big volume.bin".into(), slot: Some(0) },
                Op::Write { h: 0, len: cs + 1 },
                Op::Write { h: 0, len: cs },
                Op::Flush { h: 0 },
                Op::Seek { h: 0, whence: 0, off: 1 },
                Op::Read { h: 0, len: cs },
                Op::Close { h: 0 },
                Op::Stats,
                Op::Remount { how: 0 },
                Op::CreateDir { dir: DirRef::Root, path: "d".into(), slot: None },
                Op::Rename { sdir: DirRef::Root, src: "on a formatted big volume.bin".into(), ddir: DirRef::Root, dst: "d/moved.bin".into() },
                Op::Remove { dir: DirRef::Root, path: "d/moved.bin".into() },
            ];
            let mut src = VecSource::new(ops);
            let o = run_session(&scfg, &img, vol_bytes, fnv_of(&[&label]), &mut src);
            rep.evaluations += o.counters.api_calls;
            rep.count("formatted_volumes", 1);
            for d in &o.distinct {
                rep.distinct.insert(*d);
            }
            if let Some(v) = o.violation {
                let d = format!("[{}] {}", label, v.detail);
                rep.viol("C20", &format!("C20|{}", v.sig), &v.rule, &d, J::obj().set("argv", J::arr_of_str(vec!["c20"])).set("volume", J::s(label.clone())).set("ops", crate::ops::ops_json(&o.history)).set("detail", J::s(d.clone())));
            }
        }
    }
    for spec in specs(thorough) {
        n += 1;
        if n % nshards != shard {
            continue;
        }
        let (img, vol_bytes, g) = match big_image(&spec) {
            Ok(x) => x,
            Err(e) => {
                rep.notes.push(format!("{}: {}", spec.label(), e));
                continue;
            }
        };
        rep.count("volumes", 1);
        let mut scfg = SessCfg::all(unicode_build());
        scfg.props = ["C01", "C02", "C03", "C04", "C05", "C10", "C11", "C20"].into_iter().collect();
        scfg.nhandles = 4;
        // a full free-count scan of a 2^28-entry table is legitimate work, not a hang
        scfg.budget = Some(3_000_000_000);
        let cs = g.cluster_size as usize;
        let class = fnv_of(&[&spec.label()]);
        // ---- scripted history: allocate around the hint, read back, second file, directory, removal
        let scripted = vec![
            Op::CreateFile { dir: DirRef::Root, path: "first.bin".into(), slot: Some(0) },
            Op::Write { h: 0, len: cs },
            Op::Write { h: 0, len: cs / 2 + 3 },
            Op::Flush { h: 0 },
            Op::CreateDir { dir: DirRef::Root, path: "a directory".into(), slot: None },
            Op::CreateFile { dir: DirRef::Root, path: "a directory/second file.bin".into(), slot: Some(1) },
            Op::Write { h: 1, len: 2 * cs + 1 },
            Op::Seek { h: 0, whence: 0, off: 0 },
            Op::Read { h: 0, len: cs },
            Op::Read { h: 0, len: cs },
            Op::Seek { h: 1, whence: 0, off: cs as i64 - 1 },
            Op::Read { h: 1, len: 2 },
            Op::Stats,
            Op::Close { h: 1 },
            Op::Remount { how: 0 },
            Op::OpenFile { dir: DirRef::Root, path: "a directory/second file.bin".into(), slot: Some(1) },
            Op::Read { h: 1, len: 3 * cs },
            Op::Seek { h: 1, whence: 0, off: cs as i64 },
            Op::Truncate { h: 1 },
            Op::Close { h: 1 },
            Op::Remove { dir: DirRef::Root, path: "first.bin".into() },
            Op::CreateFile { dir: DirRef::Root, path: "third.bin".into(), slot: Some(2) },
            Op::Write { h: 2, len: 100 },
            Op::Close { h: 2 },
            Op::Remount { how: 1 },
            Op::List { dir: DirRef::Root },
            // entries whose first cluster goes back to "none": truncate to zero, directory moved up to the root
            Op::OpenFile { dir: DirRef::Root, path: "third.bin".into(), slot: Some(2) },
            Op::Truncate { h: 2 },
            Op::Close { h: 2 },
            Op::CreateDir { dir: DirRef::Root, path: "a directory/inner".into(), slot: None },
            Op::Rename { sdir: DirRef::Root, src: "a directory/inner".into(), ddir: DirRef::Root, dst: "inner at top".into() },
            Op::OpenFile { dir: DirRef::Root, path: "third.bin".into(), slot: Some(2) },
            Op::Write { h: 2, len: cs + 5 },
            Op::Close { h: 2 },
            Op::Remount { how: 0 },
            Op::OpenFile { dir: DirRef::Root, path: "a directory/second file.bin".into(), slot: Some(1) },
            Op::Read { h: 1, len: 2 * cs },
        ];
        let mut outcomes = Vec::new();
        let mut src = VecSource::new(scripted);
        outcomes.push(("scripted", run_session(&scfg, &img, vol_bytes, class, &mut src)));
        // ---- a short random history under the same monitors
        let mut rng = Rng::derive(seed, 0xC20, n);
        let mut gc = GenCfg::default();
        gc.max_ops = 25 + rng.usize_below(30);
        gc.max_file_clusters = 3;
        gc.invalid_names = false;
        gc.w_query = 1;
        let mut rs = RandomSource::new(seed, 0x20a, n, gc);
        outcomes.push(("random", run_session(&scfg, &img, vol_bytes, class, &mut rs)));
        for (kind, o) in outcomes {
            rep.evaluations += o.counters.api_calls;
            rep.count("device_events", o.counters.dev_events);
            rep.count("device_writes_classified", o.counters.writes_classified);
            rep.count("extents_checks", o.counters.extents_checks);
            for d in &o.distinct {
                rep.distinct.insert(*d);
            }
            for ((k, ek), c) in &o.counters.op_outcomes {
                rep.count(&format!("outcome:{}:{}", k, ek), *c);
            }
            if let Some(v) = o.violation {
                let d = format!("[{} / {} history] {}", spec.label(), kind, v.detail);
                let rj = J::obj()
                    .set("argv", J::arr_of_str(vec!["c20".to_string(), "--seed".into(), seed.to_string()]))
                    .set("variant", J::s(crate::modes::sessmode::variant_name()))
                    .set("profile", J::s(if cfg!(debug_assertions) { "relcheck" } else { "relwrap" }))
                    .set("volume", J::s(spec.label()))
                    .set("ops", crate::ops::ops_json(&o.history))
                    .set("detail", J::s(d.clone()));
                rep.viol("C20", &format!("C20|{}", v.sig), &v.rule, &d, rj);
            }
        }
        if rep.samples.len() < 4 {
            rep.sample(J::obj().set("volume", J::s(spec.label())).set("clusters", J::u(g.total_clusters)).set("volume_bytes", J::u(vol_bytes)).set("cluster_size", J::u(g.cluster_size)));
        }
    }
}
