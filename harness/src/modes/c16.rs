//! C16: generated 8.3 aliases are legal, unique and tied to their long name - collision-engineered directories.
#![allow(dead_code)]

use std::collections::HashMap;

use crate::fatck::Geo;
use crate::model::Model;
use crate::modes::sessmode::{unicode_build, VolCache};
use crate::modes::Report;
use crate::ops::{DirRef, Op};
use crate::sess::{run_session, OpSource, SessCfg};
use crate::util::{fnv_of, Rng, J};
use crate::vol::VolCfg;
use crate::Args;

/// BSD 16-bit checksum over the UTF-16-ish code points (what a hash-suffixed alias is derived from)
fn bsd16(name: &str) -> u16 {
    let mut c: u16 = 0;
    for ch in name.chars() {
        c = (c >> 1).wrapping_add(c << 15).wrapping_add(ch as u32 as u16);
    }
    c
}

/// names sharing the first characters, the extension and the 16-bit checksum
fn colliding_names(rng: &mut Rng, prefix: &str, ext: &str, want: usize) -> Vec<String> {
    let mut buckets: HashMap<u16, Vec<String>> = HashMap::new();
    for _ in 0..3_000_000 {
        let mut s = String::from(prefix);
        for _ in 0..6 {
            s.push((b'a' + rng.below(26) as u8) as char);
        }
        s.push_str(ext);
        let h = bsd16(&s);
        let b = buckets.entry(h).or_default();
        if !b.contains(&s) {
            b.push(s);
        }
        if b.len() >= want {
            return b.clone();
        }
    }
    buckets.into_values().max_by_key(|b| b.len()).unwrap_or_default()
}

/// names sharing prefix and extension whose 16-bit checksum is exactly `target`
fn names_with_hash(rng: &mut Rng, prefix: &str, ext: &str, target: u16, want: usize) -> Vec<String> {
    let mut out: Vec<String> = Vec::new();
    for _ in 0..2_000_000 {
        let mut s = String::from(prefix);
        for _ in 0..5 {
            s.push((b'a' + rng.below(26) as u8) as char);
        }
        for x in b'a'..=b'z' {
            let cand = format!("{}{}{}", s, x as char, ext);
            if bsd16(&cand) == target && !out.contains(&cand) {
                out.push(cand);
                break;
            }
        }
        if out.len() >= want {
            break;
        }
    }
    out
}

pub struct ListSource {
    pub ops: Vec<Op>,
    pub i: usize,
}

impl OpSource for ListSource {
    fn next(&mut self, _m: &Model, _g: Option<&Geo>) -> Option<Op> {
        let o = self.ops.get(self.i).cloned();
        self.i += 1;
        o
    }
}

fn family(rng: &mut Rng, k: u64) -> (String, Vec<String>) {
    match k % 12 {
        0 => ("same-6-prefix".into(), (0..60 + rng.below(200)).map(|i| format!("longfilename{}.txt", i)).collect()),
        1 => {
            let n = 14 + rng.usize_below(8);
            let pre = *rng.pick(&["collide-", "ab", "x", "Te", "~$lock-", "a~dummy-"]);
            ("same-prefix-ext-hash".into(), colliding_names(rng, pre, ".txt", n))
        }
        2 => (
            "alias-lookalikes".into(),
            vec!["TEXTFI~1.TXT", "TextFile.Mine.txt", "TEXTFI~2.TXT", "TextFile.Yours.txt", "TextFile.Theirs.txt", "TEXTFI~4.TXT", "TextFile.Ours.txt", "TextFile.Nobody.txt", "TE527D~1.TXT", "TextFile.More.txt", "TextFile.EvenMore.txt"]
                .into_iter()
                .map(String::from)
                .collect(),
        ),
        8 => {
            // long names that themselves contain "~N" right where a generated alias has it
            let mut v: Vec<String> = Vec::new();
            for base in ["report", "holida", "textfi", "ab"] {
                v.push(format!("{} card.txt", base));
                for k in 1..=5 {
                    v.push(format!("{}~{} backup.txt", base.to_uppercase(), k));
                    v.push(format!("{}~{}.old.txt", base, k));
                }
                v.push(format!("{} second card.txt", base));
                v.push(format!("{}~1.txt", base.to_uppercase()));
                v.push(format!("{} third.txt", base));
            }
            ("tilde-in-long-name".into(), v)
        }
        3 => (
            "dots-spaces-empty-base".into(),
            vec![".bashrc", "...", ". .", " a", "a .txt", ".a.b", "..x", ". ", "..a..", "a.", "a..", ".....txt", " . . ", ".x", ".y", ".z", ".profile", ".bash_profile", ".bash_logout"].into_iter().map(String::from).collect(),
        ),
        4 => {
            let mut v = Vec::new();
            for i in 0..40 {
                v.push(format!("\u{65e5}\u{672c}\u{8a9e}{}.txt", i));
                v.push(format!("\u{e9}t\u{e9}{}.txt", i));
            }
            ("non-ascii".into(), v)
        }
        5 => {
            // one- and two-character bases with many collisions
            let mut v = Vec::new();
            for i in 0..30 {
                v.push(format!("x+{}.txt", i));
                v.push(format!("a +{}.t", i));
            }
            ("short-base-lossy".into(), v)
        }
        6 => {
            // names that fit 8.3 exactly mixed with case variants that do not
            let mut v = Vec::new();
            for i in 0..30 {
                v.push(format!("FILE{}.TXT", i));
                v.push(format!("File{}.Txt2", i));
                v.push(format!("file{}.t", i));
            }
            ("exact-8.3-and-case".into(), v)
        }
        10 => {
            // every ASCII punctuation character that a long name may contain, inside the part of the name that ends up
            // in the alias (first characters, extension) and in names that fit 8.3 as they are
            let mut v: Vec<String> = Vec::new();
            for c in "!#$%&'()-@^_`{}~+,;=[] .".chars() {
                v.push(format!("a{}b.t{}t", c, c));
                v.push(format!("{}{} long name with it.{}x", c, c, c));
                v.push(format!("xy{}{}zw more than eight.dat", c, c));
                v.push(format!("q{}", c));
            }
            v.retain(|n| !n.ends_with(' ') && !n.ends_with('.'));
            ("punctuation".into(), v)
        }
        9 => {
            // the checksum-suffixed form exhausted at the top of the 16-bit range: the retry has to wrap to 0000
            let pre = *rng.pick(&["wraparound-", "x y z w v u ", "+++++++", "Wrap.Around."]);
            let ext = *rng.pick(&[".txt", ".c", ""]);
            let top = if rng.chance(1, 2) { 0xFFFFu16 } else { 0xFFFFu16 - rng.below(3) as u16 };
            let n = 20 + rng.usize_below(12);
            let mut v = names_with_hash(rng, pre, ext, top, n);
            if top != 0xFFFF {
                let more = names_with_hash(rng, pre, ext, 0xFFFF, 11);
                v.extend(more);
            }
            v.extend(names_with_hash(rng, pre, ext, 0, 11));
            ("hash-wraparound".into(), v)
        }
        7 => {
            let n = 16 + rng.usize_below(10);
            let mut v = colliding_names(rng, "q", ".c", n);
            // long extension / long base variants of the same hash family
            v.push("q.c".into());
            v.push("q~1.c".into());
            ("single-char-prefix-hash".into(), v)
        }
        _ => {
            let mut v = Vec::new();
            let len = 1 + rng.usize_below(12);
            for i in 0..80 {
                let mut s = String::new();
                for j in 0..len {
                    s.push(*rng.pick(&['a', 'b', '.', ' ', '_', '+', 'Z']));
                    let _ = j;
                }
                s.push_str(&format!("{}", i % 7));
                if s != "." && s != ".." {
                    v.push(s);
                }
            }
            ("random-small-alphabet".into(), v)
        }
    }
}

pub fn run(args: &Args, rep: &mut Report) {
    let seed = args.u64("seed", 1);
    let (shard, nshards) = args.shard();
    let thorough = args.str("tier", "quick") == "thorough";
    let sessions = args.u64("sessions", if thorough { 300 } else { 40 });
    let mut cache = VolCache::new();
    for k in 0..sessions {
        let id = k * nshards + shard;
        let mut rng = Rng::derive(seed, 0xC16, id);
        let (fam, mut names) = family(&mut rng, id);
        names.dedup();
        // the population lives in a cluster directory (fat12/16) or the FAT32 root
        let vc = match rng.below(3) {
            0 => VolCfg { fat: 12, bps: 512, spc: 4, nfats: 1, root_entries: 64, clusters: 900, extra: 0, garbage: true, slack: 0, used_device: false },
            1 => VolCfg { fat: 16, bps: 512, spc: 1, nfats: 2, root_entries: 512, clusters: 4200, extra: 0, garbage: false, slack: 0, used_device: false },
            _ => VolCfg { fat: 32, bps: 512, spc: 1, nfats: 1, root_entries: 0, clusters: 65600, extra: 0, garbage: true, slack: 0, used_device: false },
        };
        let Ok((img, vb)) = cache.get(&vc) else { continue };
        let in_root = vc.fat == 32 || (vc.fat == 16 && rng.chance(1, 2));
        let p = |n: &str| if in_root { n.to_string() } else { format!("pop/{}", n) };
        let mut ops: Vec<Op> = Vec::new();
        if !in_root {
            ops.push(Op::CreateDir { dir: DirRef::Root, path: "pop".into(), slot: None });
        }
        let mut live: Vec<String> = Vec::new();
        for (i, n) in names.iter().enumerate() {
            let isdir = rng.chance(1, 6);
            ops.push(if isdir { Op::CreateDir { dir: DirRef::Root, path: p(n), slot: None } } else { Op::CreateFile { dir: DirRef::Root, path: p(n), slot: None } });
            live.push(n.clone());
            // deletions in between free alias numbers again
            if rng.chance(1, 5) && live.len() > 2 {
                let j = rng.usize_below(live.len());
                let victim = live.remove(j);
                ops.push(Op::Remove { dir: DirRef::Root, path: p(&victim) });
            }
            if rng.chance(1, 12) && !live.is_empty() {
                // rename within the population (new alias must be unique as well)
                let j = rng.usize_below(live.len());
                let from = live[j].clone();
                let to = format!("{}-renamed-{}", from.trim_end_matches('.'), i);
                ops.push(Op::Rename { sdir: DirRef::Root, src: p(&from), ddir: DirRef::Root, dst: p(&to) });
                live[j] = to;
            }
            if rng.chance(1, 40) {
                ops.push(Op::Remount { how: rng.below(2) as u8 });
            }
        }
        // every survivor must still be reachable under its own name
        for n in live.iter().take(40) {
            ops.push(Op::OpenFile { dir: DirRef::Root, path: p(n), slot: None });
        }
        let mut scfg = SessCfg::all(unicode_build());
        scfg.props = ["C01", "C03", "C16"].into_iter().collect();
        scfg.nhandles = 1;
        // creating one entry must not need more than a generous multiple of a directory scan
        scfg.budget = Some(3_000_000);
        scfg.short_dev = if rng.chance(1, 4) { Some(rng.next_u64()) } else { None };
        let mut src = ListSource { ops, i: 0 };
        let class = fnv_of(&[&fam, &vc.class()]);
        let o = run_session(&scfg, &img, vb, class, &mut src);
        rep.evaluations += o.counters.api_calls;
        rep.count("sessions", 1);
        rep.count(&format!("family:{}", fam), 1);
        rep.count("raw_decodes", o.counters.decodes);
        rep.count("device_events", o.counters.dev_events);
        for ((kind, ek), n) in &o.counters.op_outcomes {
            rep.count(&format!("outcome:{}:{}", kind, ek), *n);
        }
        // distinct = distinct (family, created name) pairs, i.e. distinct alias-generation problems posed
        for n in &names {
            rep.distinct.insert(fnv_of(&[&fam, n]));
        }
        if k == 0 {
            rep.sample(J::obj().set("family", J::s(fam.clone())).set("volume", vc.json()).set("names", J::arr_of_str(names.iter().take(16).cloned())));
        }
        if let Some(v) = o.violation {
            let sig = format!("C16|{}", v.sig);
            let hist: Vec<String> = o.history.iter().rev().take(12).rev().map(|x| x.show()).collect();
            let rj = J::obj()
                .set("argv", J::arr_of_str(vec!["c16".to_string(), "--seed".into(), seed.to_string(), "--shard".into(), format!("{}/{}", shard, nshards), "--sessions".into(), (k + 1).to_string()]))
                .set("variant", J::s(crate::modes::sessmode::variant_name()))
                .set("family", J::s(fam.clone()))
                .set("volume", vc.json())
                .set("last_ops", J::arr_of_str(hist))
                .set("detail", J::s(v.detail.clone()));
            rep.viol("C16", &sig, &v.rule, &format!("[{} on {}] {}", fam, vc.label(), v.detail), rj);
        }
    }
}
