//! C02 / C09 through the `std::io` face of the crate: `File` used via std::io::{Read, Write, Seek} on a
//! `StdIoWrapper<Cursor<Vec<u8>>>` storage, against a byte-array + cursor model; error conversion into std::io::Error.
#![allow(dead_code)]

use std::io::{Cursor, Read, Seek, SeekFrom, Write};
use std::panic::{catch_unwind, AssertUnwindSafe};

use crate::clock::Clock;
use crate::modes::Report;
use crate::sess::take_panic;
use crate::util::{Fnv, Rng, J};
use crate::Args;

type StdFs = fatfs::FileSystem<fatfs::StdIoWrapper<Cursor<Vec<u8>>>, Clock, fatfs::LossyOemCpConverter>;

/// storage that fails the k-th write with a recognisable std::io::Error
struct Flaky {
    inner: Cursor<Vec<u8>>,
    writes: std::rc::Rc<std::cell::Cell<u64>>,
    fail_at: u64,
    /// set when the failing write was issued from a destructor (exempt: destructors cannot report errors)
    in_drop: std::rc::Rc<std::cell::Cell<bool>>,
}

impl Read for Flaky {
    fn read(&mut self, b: &mut [u8]) -> std::io::Result<usize> {
        self.inner.read(b)
    }
}
impl Seek for Flaky {
    fn seek(&mut self, p: SeekFrom) -> std::io::Result<u64> {
        self.inner.seek(p)
    }
}
impl Write for Flaky {
    fn write(&mut self, b: &[u8]) -> std::io::Result<usize> {
        self.writes.set(self.writes.get() + 1);
        if self.writes.get() == self.fail_at {
            self.in_drop.set(fatfs::verif_hooks::in_drop());
            return Err(std::io::Error::new(std::io::ErrorKind::Other, "verif-boom-1234"));
        }
        self.inner.write(b)
    }
    fn flush(&mut self) -> std::io::Result<()> {
        self.inner.flush()
    }
}

fn fresh(total_sectors: u32, fat: fatfs::FatType, bpc: u32) -> Result<Vec<u8>, String> {
    let mut w = fatfs::StdIoWrapper::new(Cursor::new(vec![0u8; total_sectors as usize * 512]));
    fatfs::format_volume(&mut w, fatfs::FormatVolumeOptions::new().fat_type(fat).bytes_per_cluster(bpc).total_sectors(total_sectors)).map_err(|e| format!("{:?}", e))?;
    Ok(w.into_inner().into_inner())
}

fn one_session(rng: &mut Rng, bytes: Vec<u8>, cs: u64, rep: &mut Report) -> Result<(), (String, String)> {
    let fs: StdFs = fatfs::FileSystem::new(Cursor::new(bytes), fatfs::FsOptions::new().time_provider(Clock::new(3))).map_err(|e| ("mount".to_string(), format!("{:?}", e)))?;
    let root = fs.root_dir();
    let mut f = root.create_file("std io file.bin").map_err(|e| ("create".to_string(), format!("{:?}", e)))?;
    let mut model: Vec<u8> = Vec::new();
    let mut cur: u64 = 0;
    let nops = 20 + rng.usize_below(60);
    for opi in 0..nops {
        rep.evaluations += 1;
        match rng.below(7) {
            0 | 1 => {
                // write_all of a whole buffer (may span several clusters)
                let len = *rng.pick(&[0u64, 1, 7, cs - 1, cs, cs + 1, 2 * cs + 3, 100]) as usize;
                let data: Vec<u8> = (0..len).map(|i| (opi * 31 + i * 7) as u8).collect();
                f.write_all(&data).map_err(|e| ("write_all".to_string(), format!("write_all({}) at {} failed: {}", len, cur, e)))?;
                let end = cur as usize + len;
                if model.len() < end {
                    model.resize(end, 0);
                }
                model[cur as usize..end].copy_from_slice(&data);
                cur = end as u64;
            }
            2 => {
                // read_exact inside the file / beyond its end
                let len = rng.below(2 * cs + 5) as usize;
                let mut buf = vec![0u8; len];
                let remaining = model.len() as u64 - cur;
                match f.read_exact(&mut buf) {
                    Ok(()) => {
                        if (len as u64) > remaining {
                            return Err(("read_exact-past-end".into(), format!("read_exact({}) at {} of {} succeeded", len, cur, model.len())));
                        }
                        if buf[..] != model[cur as usize..cur as usize + len] {
                            return Err(("read_exact-data".into(), format!("read_exact({}) at {} of {} returned wrong bytes", len, cur, model.len())));
                        }
                        cur += len as u64;
                    }
                    Err(e) => {
                        if (len as u64) <= remaining {
                            return Err(("read_exact-error".into(), format!("read_exact({}) at {} of {} failed: {}", len, cur, model.len(), e)));
                        }
                        if e.kind() != std::io::ErrorKind::UnexpectedEof {
                            return Err(("read_exact-error-kind".into(), format!("read_exact past the end failed with {:?}", e.kind())));
                        }
                        // position after a failed read_exact is unspecified: re-seek
                        cur = f.seek(SeekFrom::Start(0)).map_err(|e| ("seek".to_string(), format!("{}", e)))?;
                    }
                }
            }
            3 => {
                // read_to_end
                let mut v = Vec::new();
                let n = f.read_to_end(&mut v).map_err(|e| ("read_to_end".to_string(), format!("{}", e)))?;
                if n != v.len() || v[..] != model[cur as usize..] {
                    return Err(("read_to_end-data".into(), format!("read_to_end at {} of {} returned {} bytes", cur, model.len(), n)));
                }
                cur = model.len() as u64;
            }
            4 | 5 => {
                let size = model.len() as i64;
                let (sf, target) = match rng.below(3) {
                    0 => {
                        let t = rng.below(size as u64 + 20) as i64;
                        (SeekFrom::Start(t as u64), t)
                    }
                    1 => {
                        let d = rng.below(2 * cs + 9) as i64 - cs as i64;
                        (SeekFrom::Current(d), cur as i64 + d)
                    }
                    _ => {
                        let d = rng.below(cs + 9) as i64 - cs as i64;
                        (SeekFrom::End(d), size + d)
                    }
                };
                match f.seek(sf) {
                    Ok(p) => {
                        if target < 0 {
                            return Err(("seek-negative-accepted".into(), format!("{:?} from {} (size {}) returned {}", sf, cur, size, p)));
                        }
                        let want = target.min(size) as u64;
                        if p != want {
                            return Err(("seek-position".into(), format!("{:?} from {} (size {}) returned {}, expected {}", sf, cur, size, p, want)));
                        }
                        cur = p;
                    }
                    Err(e) => {
                        if target >= 0 {
                            return Err(("seek-error".into(), format!("{:?} from {} (size {}) failed: {}", sf, cur, size, e)));
                        }
                        if e.kind() != std::io::ErrorKind::InvalidInput {
                            return Err(("seek-error-kind".into(), format!("negative seek failed with {:?}", e.kind())));
                        }
                    }
                }
            }
            _ => {
                f.flush().map_err(|e| ("flush".to_string(), format!("{}", e)))?;
            }
        }
    }
    f.flush().map_err(|e| ("flush".to_string(), format!("{}", e)))?;
    drop(f);
    // fresh handle, std::io::Read
    let mut g = root.open_file("STD IO FILE.BIN").map_err(|e| ("reopen".to_string(), format!("{:?}", e)))?;
    let mut back = Vec::new();
    g.read_to_end(&mut back).map_err(|e| ("read_to_end".to_string(), format!("{}", e)))?;
    if back != model {
        return Err(("reopen-content".into(), format!("fresh handle reads {} bytes, model has {}", back.len(), model.len())));
    }
    drop(g);
    // error conversion into std::io::Error (documented mapping)
    let conv = |e: fatfs::Error<std::io::Error>| -> std::io::Error { e.into() };
    let checks: Vec<(&str, std::io::ErrorKind, Result<(), fatfs::Error<std::io::Error>>)> = vec![
        ("open missing", std::io::ErrorKind::NotFound, root.open_file("no such file").map(|_| ())),
        ("open file as dir", std::io::ErrorKind::InvalidInput, root.open_dir("std io file.bin").map(|_| ())),
        ("bad name", std::io::ErrorKind::InvalidInput, root.create_file("a*b").map(|_| ())),
        ("empty name", std::io::ErrorKind::InvalidInput, root.create_dir("").map(|_| ())),
        ("rename onto existing", std::io::ErrorKind::AlreadyExists, root.create_file("other").and_then(|_| root.rename("other", &root, "std io file.bin"))),
        ("remove non-empty dir", std::io::ErrorKind::InvalidInput, root.create_dir("d").and_then(|d| d.create_file("x").map(|_| ())).and_then(|_| root.remove("d"))),
    ];
    for (what, kind, r) in checks {
        match r {
            Ok(()) => return Err(("error-expected".into(), format!("{}: succeeded", what))),
            Err(e) => {
                let shown = format!("{}", e);
                let io = conv(e);
                if io.kind() != kind || shown.is_empty() {
                    return Err(("error-conversion".into(), format!("{}: converted to {:?} (\"{}\"), documented kind {:?}", what, io.kind(), shown, kind)));
                }
            }
        }
    }
    drop(root);
    fs.unmount().map_err(|e| ("unmount".to_string(), format!("{:?}", e)))?;
    Ok(())
}

/// every write index of a small std::io history fails once: the std::io::Error of the storage must come back
fn flaky(bytes: &[u8], k: u64) -> Result<bool, (String, String)> {
    let counter = std::rc::Rc::new(std::cell::Cell::new(0u64));
    let in_drop = std::rc::Rc::new(std::cell::Cell::new(false));
    let st = Flaky { inner: Cursor::new(bytes.to_vec()), writes: counter.clone(), fail_at: k, in_drop: in_drop.clone() };
    let fs: fatfs::FileSystem<fatfs::StdIoWrapper<Flaky>, Clock, fatfs::LossyOemCpConverter> = match fatfs::FileSystem::new(st, fatfs::FsOptions::new().time_provider(Clock::new(3))) {
        Ok(f) => f,
        Err(e) => return Err(("mount".into(), format!("{:?}", e))),
    };
    let root = fs.root_dir();
    let r = (|| -> std::io::Result<()> {
        let mut f = root.create_file("flaky target.bin")?;
        f.write_all(&[7u8; 1500])?;
        f.seek(SeekFrom::Start(10))?;
        f.write_all(&[9u8; 20])?;
        f.flush()?;
        root.create_dir("dir")?;
        root.rename("flaky target.bin", &root, "dir/moved.bin")?;
        root.remove("dir/moved.bin")?;
        Ok(())
    })();
    let fired = counter.get() >= k;
    std::mem::forget(root);
    std::mem::forget(fs);
    if !fired || in_drop.get() {
        return Ok(false);
    }
    match r {
        Ok(()) => Err(("std-storage-error-swallowed".into(), format!("write #{} of the storage failed but every call returned Ok", k))),
        Err(e) => {
            if e.kind() != std::io::ErrorKind::Other || !format!("{}", e).contains("verif-boom-1234") {
                return Err(("std-storage-error-masked".into(), format!("write #{} failed with the storage error \"verif-boom-1234\"; the call returned {:?}: {}", k, e.kind(), e)));
            }
            Ok(true)
        }
    }
}

pub fn run(args: &Args, rep: &mut Report) {
    let seed = args.u64("seed", 1);
    let (shard, nshards) = args.shard();
    let thorough = args.str("tier", "quick") == "thorough";
    let sessions = if thorough { 600 } else { 60 };
    let geos = [(2000u32, fatfs::FatType::Fat12, 512u32), (9000, fatfs::FatType::Fat16, 1024), (70000, fatfs::FatType::Fat32, 512), (4000, fatfs::FatType::Fat12, 4096)];
    for (gi, (total, fat, bpc)) in geos.iter().enumerate() {
        let bytes = match fresh(*total, *fat, *bpc) {
            Ok(b) => b,
            Err(e) => {
                rep.inconclusive.push(format!("stdio: format failed: {}", e));
                continue;
            }
        };
        for k in 0..sessions {
            let id = k * nshards + shard;
            let mut rng = Rng::derive(seed, 0x5D10 + gi as u64, id);
            let b = bytes.clone();
            let r = catch_unwind(AssertUnwindSafe(|| one_session(&mut rng, b, u64::from(*bpc), rep)));
            let mut f = Fnv::new();
            f.u64(gi as u64).u64(id);
            rep.distinct.insert(f.get());
            let rj = |d: &str| J::obj().set("argv", J::arr_of_str(vec!["stdio".to_string(), "--seed".into(), seed.to_string()])).set("geometry", J::s(format!("{} sectors, {:?}, {} B clusters", total, fat, bpc))).set("session", J::u(id)).set("detail", J::s(d));
            match r {
                Ok(Ok(())) => rep.count("sessions", 1),
                Ok(Err((rule, d))) => {
                    let prop = if rule.starts_with("error-") { "C01" } else { "C02" };
                    rep.viol(prop, &format!("{}|stdio|{}", prop, rule), &rule, &format!("[std::io face, {:?} {} B clusters] {}", fat, bpc, d), rj(&d));
                }
                Err(_) => {
                    let (cls, full) = take_panic();
                    let d = format!("std::io session panicked: {}", full);
                    rep.viol("C02", &format!("C02|stdio|panic|{}", cls), "panic", &d, rj(&d));
                }
            }
        }
        // storage errors through the std::io face (C09)
        if shard == (gi as u64) % nshards {
            for k in 1..=400u64 {
                rep.evaluations += 1;
                match catch_unwind(AssertUnwindSafe(|| flaky(&bytes, k))) {
                    Ok(Ok(_)) => rep.count("flaky_runs", 1),
                    Ok(Err((rule, d))) => {
                        rep.viol("C09", &format!("C09|stdio|{}", rule), &rule, &format!("[std::io storage, {:?}] {}", fat, d), J::obj().set("argv", J::arr_of_str(vec!["stdio"])).set("k", J::u(k)).set("detail", J::s(d.clone())));
                    }
                    Err(_) => {
                        let (cls, full) = take_panic();
                        let d = format!("write #{} failing: panic {}", k, full);
                        rep.viol("C09", &format!("C09|stdio|panic|{}", cls), "panic", &d, J::obj().set("argv", J::arr_of_str(vec!["stdio"])).set("detail", J::s(d.clone())));
                    }
                }
            }
        }
    }
    rep.sample(J::s("write_all / read_exact / read_to_end / seek(Start|Current|End) / flush through std::io traits on StdIoWrapper<Cursor<Vec<u8>>>; one-shot failing std storage"));
}
