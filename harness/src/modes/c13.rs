//! C13: read-only use never writes to the storage.
#![allow(dead_code)]

use crate::build::{build, Spec};
use crate::gen::{GenCfg, RandomSource};
use crate::modes::sessmode::{unicode_build, VolCache};
use crate::modes::Report;
use crate::sess::{run_session, SessCfg};
use crate::util::{fnv_of, Rng, J};
use crate::vol::grid;
use crate::Args;

pub fn run(args: &Args, rep: &mut Report) {
    let seed = args.u64("seed", 1);
    let (shard, nshards) = args.shard();
    let sessions = args.u64("sessions", 200);
    let deadline = args.u64("time", 0);
    let mut cache = VolCache::new();
    for k in 0..sessions {
        if deadline > 0 && rep.elapsed() > deadline as f64 {
            rep.notes.push(format!("time budget reached after {} sessions", k));
            break;
        }
        let id = k * nshards + shard;
        let mut rng = Rng::derive(seed, 0xC13, id);
        // ---- a populated volume: foreign (builder) or written by the library itself
        let (mut img, vol_bytes, origin, label) = if rng.chance(1, 2) {
            let spec = Spec::random(&mut rng);
            match build(&spec, &mut rng) {
                Ok((img, t)) => (img, t.vol_bytes, "builder", spec.label()),
                Err(_) => continue,
            }
        } else {
            let vc = grid(&mut rng, false);
            let Ok((img, vb)) = cache.get(&vc) else { continue };
            let mut g = GenCfg::default();
            g.max_ops = 30 + rng.usize_below(60);
            g.w_remount = 0;
            g.invalid_names = false;
            let mut scfg = SessCfg::all(unicode_build());
            scfg.props = ["C01"].into_iter().collect();
            scfg.lib_walk = false;
            let mut src = RandomSource::new(seed, 0x13a, id, g);
            let o = run_session(&scfg, &img, vb, 0, &mut src);
            if o.violation.is_some() {
                continue;
            }
            (o.final_img, vb, "library", vc.label())
        };
        // clean or dirty at mount, known or unknown free count
        let g = match crate::fatck::geo_of(&img) {
            Ok(g) => g,
            Err(_) => continue,
        };
        if rng.chance(1, 3) {
            let b = img.u8(g.status_off);
            img.set_u8(g.status_off, b | 1);
        }
        if g.fat_bits == 32 && rng.chance(1, 3) {
            img.set_u32(g.fsinfo_sector * g.bps + 488, 0xFFFF_FFFF);
        }
        let mut gc = GenCfg::default();
        gc.read_only = true;
        gc.max_ops = 20 + rng.usize_below(80);
        gc.invalid_names = false;
        let mut scfg = SessCfg::all(unicode_build());
        scfg.props = ["C01", "C13"].into_iter().collect();
        scfg.tolerate_baseline_diags = true;
        scfg.opt_order = rng.below(12) as u8;
        scfg.lib_walk = rng.chance(1, 2);
        scfg.short_dev = if rng.chance(1, 4) { Some(rng.next_u64()) } else { None };
        // a device that refuses writes: nothing may depend on a write succeeding (skipped where the documented
        // exception - storing a recomputed FAT32 free count - can apply)
        let trusted = crate::fatck::fsinfo(&img, &g).map_or(false, |(c, _)| c != 0xFFFF_FFFF && u64::from(c) <= g.total_clusters) && img.u8(g.status_off) & 1 == 0;
        scfg.fail_writes = (g.fat_bits != 32 || trusted) && rng.chance(1, 3);
        let class = fnv_of(&[origin, &format!("fat{}", g.fat_bits), if scfg.fail_writes { "ro-device" } else { "rw-device" }, if trusted { "trusted" } else { "untrusted" }]);
        let mut src = RandomSource::new(seed, 0x13b, id, gc);
        let o = run_session(&scfg, &img, vol_bytes, class, &mut src);
        rep.evaluations += o.counters.api_calls;
        rep.count("sessions", 1);
        rep.count(&format!("origin:{}", origin), 1);
        rep.count("device_events", o.counters.dev_events);
        rep.count("fsinfo_exception_writes", o.counters.readonly_exceptions);
        rep.count("sessions_on_write_refusing_device", u64::from(scfg.fail_writes));
        for d in &o.distinct {
            rep.distinct.insert(*d);
        }
        for ((kind, ek), n) in &o.counters.op_outcomes {
            rep.count(&format!("outcome:{}:{}", kind, ek), *n);
        }
        let rj = |detail: &str| {
            J::obj()
                .set("argv", J::arr_of_str(vec!["c13".to_string(), "--seed".into(), seed.to_string(), "--shard".into(), format!("{}/{}", shard, nshards), "--sessions".into(), (k + 1).to_string()]))
                .set("variant", J::s(crate::modes::sessmode::variant_name()))
                .set("volume", J::s(format!("{} ({})", label, origin)))
                .set("ops", crate::ops::ops_json(&o.history))
                .set("detail", J::s(detail))
        };
        if let Some(v) = &o.violation {
            let d = format!("[{} volume {}{}] {}", origin, label, if scfg.fail_writes { ", write-refusing device" } else { "" }, v.detail);
            rep.viol("C13", &format!("C13|{}", v.sig), &v.rule, &d, rj(&d));
        } else if o.counters.total_dev_writes > o.counters.fsinfo_dev_writes || (o.counters.fsinfo_dev_writes > 0 && o.counters.fsinfo_exception_armed == 0) {
            let d = format!("[{} volume {}] {} device writes were issued during a read-only session (including the monitors' own listings)", origin, label, o.counters.total_dev_writes);
            rep.viol("C13", "C13|writes-counted", "writes-counted", &d, rj(&d));
        }
        if k == 0 {
            rep.sample(J::obj().set("volume", J::s(label.clone())).set("origin", J::s(origin)).set("ops", J::Arr(o.history.iter().take(20).map(|x| J::Str(x.show())).collect())));
        }
    }
}
