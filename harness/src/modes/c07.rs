//! C07: mounting is total; accepted volumes are coherent by an independent wide-integer parse.
#![allow(dead_code)]

use std::panic::{catch_unwind, AssertUnwindSafe};

use crate::clock::Clock;
use crate::dev::{Image, MonDev};
use crate::fatck::{self, coherent, parse_raw_bpb};
use crate::model::{classify_err, EK};
use crate::modes::Report;
use crate::sess::{take_panic, Fs};
use crate::util::{Fnv, Rng, J};
use crate::vol::{make_volume, VolCfg};
use crate::Args;

pub struct MountOutcome {
    pub ek: EK,
    pub detail: String,
    pub geom: Option<(u32, u32, Option<u32>)>,
}

/// Mount `img` (strict or not) under panic capture and a device-call budget.
pub fn try_mount(img: &Image, strict: bool, want_total: bool) -> MountOutcome {
    let dev = MonDev::new(img.clone());
    dev.set_logging(false, false);
    dev.set_budget(Some(200_000));
    let clock = Clock::new(1);
    let r = catch_unwind(AssertUnwindSafe(|| {
        let opts = fatfs::FsOptions::new().time_provider(clock).strict(strict);
        let fs: Fs = match fatfs::FileSystem::new(dev.handle(), opts) {
            Ok(f) => f,
            Err(e) => return Err(classify_err(&e)),
        };
        let ft = match fs.fat_type() {
            fatfs::FatType::Fat12 => 12,
            fatfs::FatType::Fat16 => 16,
            fatfs::FatType::Fat32 => 32,
        };
        let cs = fs.cluster_size();
        // the statistics query is not the call under test: it may legitimately scan the whole table
        dev.begin_call();
        dev.set_budget(Some(8_000_000));
        let total = if want_total { fs.stats().ok().map(|s| s.total_clusters()) } else { None };
        drop(fs);
        Ok((ft, cs, total))
    }));
    match r {
        Ok(Ok(g)) => MountOutcome {
            ek: EK::Ok,
            detail: String::new(),
            geom: Some(g),
        },
        Ok(Err(ek)) => MountOutcome {
            ek,
            detail: String::new(),
            geom: None,
        },
        Err(_) => {
            let (cls, full) = take_panic();
            let ek = if dev.tripped() { EK::Budget } else { EK::Panic };
            MountOutcome {
                ek,
                detail: format!("{}|{}", cls, full),
                geom: None,
            }
        }
    }
}

struct Field {
    name: &'static str,
    off: u64,
    width: u8,
    fat32_only: bool,
    not_fat32: bool,
}

const FIELDS: &[Field] = &[
    Field { name: "jmp0", off: 0, width: 1, fat32_only: false, not_fat32: false },
    Field { name: "bytes_per_sector", off: 11, width: 2, fat32_only: false, not_fat32: false },
    Field { name: "sectors_per_cluster", off: 13, width: 1, fat32_only: false, not_fat32: false },
    Field { name: "reserved_sectors", off: 14, width: 2, fat32_only: false, not_fat32: false },
    Field { name: "fats", off: 16, width: 1, fat32_only: false, not_fat32: false },
    Field { name: "root_entries", off: 17, width: 2, fat32_only: false, not_fat32: false },
    Field { name: "total_sectors_16", off: 19, width: 2, fat32_only: false, not_fat32: false },
    Field { name: "media", off: 21, width: 1, fat32_only: false, not_fat32: false },
    Field { name: "sectors_per_fat_16", off: 22, width: 2, fat32_only: false, not_fat32: false },
    Field { name: "sectors_per_track", off: 24, width: 2, fat32_only: false, not_fat32: false },
    Field { name: "heads", off: 26, width: 2, fat32_only: false, not_fat32: false },
    Field { name: "hidden_sectors", off: 28, width: 4, fat32_only: false, not_fat32: false },
    Field { name: "total_sectors_32", off: 32, width: 4, fat32_only: false, not_fat32: false },
    Field { name: "sectors_per_fat_32", off: 36, width: 4, fat32_only: true, not_fat32: false },
    Field { name: "extended_flags", off: 40, width: 2, fat32_only: true, not_fat32: false },
    Field { name: "fs_version", off: 42, width: 2, fat32_only: true, not_fat32: false },
    Field { name: "root_dir_first_cluster", off: 44, width: 4, fat32_only: true, not_fat32: false },
    Field { name: "fs_info_sector", off: 48, width: 2, fat32_only: true, not_fat32: false },
    Field { name: "backup_boot_sector", off: 50, width: 2, fat32_only: true, not_fat32: false },
    Field { name: "drive_num32", off: 64, width: 1, fat32_only: true, not_fat32: false },
    Field { name: "status32", off: 65, width: 1, fat32_only: true, not_fat32: false },
    Field { name: "ext_sig32", off: 66, width: 1, fat32_only: true, not_fat32: false },
    Field { name: "drive_num16", off: 36, width: 1, fat32_only: false, not_fat32: true },
    Field { name: "status16", off: 37, width: 1, fat32_only: false, not_fat32: true },
    Field { name: "ext_sig16", off: 38, width: 1, fat32_only: false, not_fat32: true },
    Field { name: "boot_sig0", off: 510, width: 1, fat32_only: false, not_fat32: false },
    Field { name: "boot_sig1", off: 511, width: 1, fat32_only: false, not_fat32: false },
];

fn interesting32(rng: &mut Rng, extra: &[u32]) -> Vec<u32> {
    let mut v: Vec<u32> = vec![0, 1, 2, 3, 0xFFFF_FFFF, 0xFFFF_FFFE, 0x0FFF_FFF4, 0x0FFF_FFF5, 0x0FFF_FFF6, 0x0FFF_FFF7, 0x0FFF_FFFF, 0x1000_0000, 4084, 4085, 4086, 65524, 65525, 65526];
    for k in 0..32 {
        let p = 1u32 << k;
        v.push(p);
        v.push(p.wrapping_sub(1));
        v.push(p.wrapping_add(1));
    }
    for e in extra {
        for d in [-2i64, -1, 0, 1, 2] {
            v.push((*e as i64 + d) as u32);
        }
    }
    // small (plausible) values under every pattern of the four top bits (FAT32 numbers are 28 bits wide; a field that is
    // range-checked after masking but used unmasked, or the reverse, shows here)
    for h in 1..16u32 {
        for lo in [0u32, 2, 3, 17, 1000, 0x0FFF_FFF8] {
            v.push((h << 28) | lo);
        }
    }
    for _ in 0..200 {
        v.push(rng.next_u32());
        v.push(rng.next_u32() >> rng.below(32));
    }
    v.sort_unstable();
    v.dedup();
    v
}

pub struct Judge<'a> {
    pub rep: &'a mut Report,
    pub base_name: String,
}

/// evaluate one candidate image; returns true if a violation was reported
pub fn judge_mount(rep: &mut Report, args: &Args, base: &str, what: &str, img: &Image, strict: bool, replay_extra: J) {
    // `--limit N`: stop early (used by the Miri smoke run, where every mount costs milliseconds)
    if let Some(l) = args.get("limit").and_then(|v| v.parse::<u64>().ok()) {
        if rep.evaluations >= l {
            return;
        }
    }
    rep.evaluations += 1;
    let b = img.bytes(0, 512);
    let raw = parse_raw_bpb(&b);
    let ind = coherent(&raw);
    let cheap = ind.as_ref().map_or(false, |g| g.total_clusters < 300_000 && g.fat_off(0) + g.fat_bytes() <= img.len());
    let o = try_mount(img, strict, cheap);
    let mut f = Fnv::new();
    f.str(base).str(what.split('=').next().unwrap_or("")).str(o.ek.name()).u64(u64::from(strict));
    if let Some(g) = &o.geom {
        f.u64(u64::from(g.0)).u64(u64::from(g.1));
    }
    if let Err(e) = &ind {
        f.str(e.split(' ').next().unwrap_or(""));
    }
    rep.distinct.insert(f.get());
    rep.count(&format!("outcome:mount:{}", o.ek.name()), 1);
    let mk_replay = |detail: &str| {
        J::obj()
            .set("argv", J::arr_of_str(vec!["c07".to_string(), "--only-case".into(), format!("{}|{}|{}", base, what, strict)]))
            .set("variant", J::s(crate::modes::sessmode::variant_name()))
            .set("profile", J::s(if cfg!(debug_assertions) { "relcheck" } else { "relwrap" }))
            .set("base", J::s(base))
            .set("mutation", J::s(what))
            .set("strict", J::Bool(strict))
            .set("boot_sector_hex", J::s(crate::util::hex(&b[..90])))
            .set("extra", replay_extra.clone())
            .set("detail", J::s(detail))
    };
    let _ = args;
    match o.ek {
        EK::Panic | EK::Budget => {
            let cls = o.detail.split('|').next().unwrap_or("").to_string();
            let d = format!("FileSystem::new on {} with {} (strict={}) {}: {}", base, what, strict, if o.ek == EK::Panic { "panicked" } else { "exceeded the device-call budget" }, o.detail);
            let field = what.split('=').next().unwrap_or("").split('+').next().unwrap_or("").to_string();
            let _ = field; rep.viol("C07", &format!("C07|mount-{}|{}", o.ek.name(), cls), "mount-not-total", &d, mk_replay(&d));
        }
        EK::Ok => {
            let (ft, cs, total) = o.geom.unwrap();
            match &ind {
                Err(why) => {
                    let d = format!("FileSystem::new accepted {} with {} (strict={}) as FAT{} although the geometry is incoherent: {}", base, what, strict, ft, why);
                    let cls: String = why.chars().filter(|c| !c.is_ascii_digit()).take(40).collect();
                    rep.viol("C07", &format!("C07|accepted-incoherent|{}", cls.trim()), "accepted-incoherent", &d, mk_replay(&d));
                }
                Ok(g) => {
                    let tot_ok = total.map_or(true, |t| u64::from(t) == g.total_clusters);
                    if ft != g.fat_bits || u64::from(cs) != g.cluster_size || !tot_ok {
                        let d = format!(
                            "accepted volume ({} with {}): library says FAT{} cluster {} total {:?}; independent parse says FAT{} cluster {} total {}",
                            base, what, ft, cs, total, g.fat_bits, g.cluster_size, g.total_clusters
                        );
                        rep.viol("C07", "C07|geometry-mismatch", "geometry-mismatch", &d, mk_replay(&d));
                    }
                }
            }
        }
        _ => {}
    }
}

pub fn bases() -> Vec<(String, Image)> {
    let mut v = Vec::new();
    for (name, cfg) in [
        ("fat12", VolCfg { fat: 12, bps: 512, spc: 1, nfats: 2, root_entries: 32, clusters: 300, extra: 0, garbage: false, slack: 0, used_device: false }),
        ("fat16", VolCfg { fat: 16, bps: 512, spc: 2, nfats: 2, root_entries: 512, clusters: 5000, extra: 0, garbage: false, slack: 0, used_device: false }),
        ("fat32", VolCfg { fat: 32, bps: 512, spc: 1, nfats: 2, root_entries: 0, clusters: 66000, extra: 0, garbage: false, slack: 0, used_device: false }),
        ("fat16-4k", VolCfg { fat: 16, bps: 4096, spc: 8, nfats: 1, root_entries: 128, clusters: 4200, extra: 0, garbage: false, slack: 0, used_device: false }),
    ] {
        if let Ok((img, _)) = make_volume(&cfg) {
            v.push((name.to_string(), img));
        }
    }
    v
}

fn put(img: &mut Image, f: &Field, v: u32) {
    match f.width {
        1 => img.set_u8(f.off, v as u8),
        2 => img.set_u16(f.off, v as u16),
        _ => img.set_u32(f.off, v),
    }
}

pub fn run(args: &Args, rep: &mut Report) {
    let seed = args.u64("seed", 1);
    let (shard, nshards) = args.shard();
    let thorough = args.str("tier", "quick") == "thorough";
    let bases = bases();
    let only_raw = args.get("only-case").map(|s| s.to_string());
    let planted_only = only_raw.as_ref().map_or(false, |o| o.contains("+target-sector-planted"));
    let only = only_raw.map(|o| o.replace("+target-sector-planted", ""));
    let mut case_no: u64 = 0;
    let mut rng = Rng::derive(seed, 0xC07, shard);
    // ---- single-field sweeps
    for (bname, base) in &bases {
        let is32 = bname == "fat32";
        let extra32: Vec<u32> = vec![base.u32(32), base.u32(36), base.u16(19) as u32, base.u16(22) as u32];
        for f in FIELDS {
            if (f.fat32_only && !is32) || (f.not_fat32 && is32) {
                continue;
            }
            let values: Vec<u32> = match f.width {
                1 => (0..256).collect(),
                2 => {
                    if thorough || bname != "fat16-4k" {
                        (0..65536).collect()
                    } else {
                        (0..65536).step_by(7).collect()
                    }
                }
                _ => interesting32(&mut rng, &extra32),
            };
            for v in values {
                case_no += 1;
                let what = format!("{}={:#x}", f.name, v);
                if let Some(o) = &only {
                    if !o.starts_with(&format!("{}|{}|", bname, what)) {
                        continue;
                    }
                } else if case_no % nshards != shard {
                    continue;
                }
                let mut img = base.clone();
                put(&mut img, f, v);
                for strict in [true, false] {
                    if let Some(o) = &only {
                        if !o.ends_with(&format!("|{}", strict)) {
                            continue;
                        }
                    }
                    // non-strict runs only differ in the signature check: sample them
                    if !strict && only.is_none() && f.width == 2 && v % 16 != 3 {
                        continue;
                    }
                    if !planted_only {
                        judge_mount(rep, args, bname, &what, &img, strict, J::Null);
                    }
                }
                // a pointer to the information / backup sector is only followed when that sector looks right: give
                // the target sector the expected content so that the range check, not the signature check, decides
                if is32 && (only.is_none() || planted_only) && (f.name == "fs_info_sector" || f.name == "backup_boot_sector") && v > 0 {
                    let bps = u64::from(base.u16(11));
                    let src = if f.name == "fs_info_sector" { u64::from(base.u16(48)) } else { 0 };
                    let dst = u64::from(v) * bps;
                    if dst + 512 <= img.len() && u64::from(v) != src {
                        let sector = base.bytes(src * bps, 512);
                        let mut img2 = img.clone();
                        img2.write(dst, &sector);
                        if f.name == "backup_boot_sector" {
                            // the copy describes the same (edited) volume
                            let head = img.bytes(0, 512);
                            img2.write(dst, &head);
                        }
                        judge_mount(rep, args, bname, &format!("{}+target-sector-planted", what), &img2, true, J::Null);
                    }
                }
            }
        }
    }
    if only.is_some() {
        return;
    }
    // ---- random multi-field combinations
    let combos = if thorough { 6_000_000 } else { 60_000 } / nshards;
    for i in 0..combos {
        let (bname, base) = &bases[rng.usize_below(bases.len())];
        let is32 = bname == "fat32";
        let k = 2 + rng.usize_below(3);
        let mut img = base.clone();
        let mut what = Vec::new();
        for _ in 0..k {
            let f = &FIELDS[rng.usize_below(FIELDS.len())];
            if (f.fat32_only && !is32) || (f.not_fat32 && is32) {
                continue;
            }
            let v: u32 = match rng.below(6) {
                0 => 0,
                1 => 1 << rng.below(32),
                2 => (1u32 << rng.below(32)).wrapping_sub(1),
                3 => rng.next_u32(),
                4 => rng.next_u32() >> rng.below(32),
                _ => {
                    // small perturbation of the current value
                    let cur = match f.width {
                        1 => u32::from(img.u8(f.off)),
                        2 => u32::from(img.u16(f.off)),
                        _ => img.u32(f.off),
                    };
                    cur.wrapping_add(rng.below(5) as u32).wrapping_sub(2)
                }
            };
            put(&mut img, f, v);
            what.push(format!("{}={:#x}", f.name, v));
        }
        let strict = rng.chance(3, 4);
        judge_mount(rep, args, bname, &what.join("+"), &img, strict, J::u(i));
    }
    // ---- FS-info sector contents (FAT32 base)
    if let Some((bname, base)) = bases.iter().find(|b| b.0 == "fat32") {
        let fo = 512u64;
        let n = if thorough { 1_000_000 } else { 12_000 } / nshards;
        for i in 0..n {
            let mut img = base.clone();
            let mut what = Vec::new();
            for _ in 0..1 + rng.below(3) {
                let (nm, off) = *rng.pick(&[("lead_sig", 0u64), ("struc_sig", 484), ("free_count", 488), ("next_free", 492), ("trail_sig", 508), ("reserved", 100)]);
                let v: u32 = match rng.below(5) {
                    0 => 0,
                    1 => 0xFFFF_FFFF,
                    2 => rng.next_u32(),
                    3 => 1 << rng.below(32),
                    _ => base.u32(fo + off).wrapping_add(rng.below(7) as u32).wrapping_sub(3),
                };
                img.set_u32(fo + off, v);
                what.push(format!("fsinfo.{}={:#x}", nm, v));
            }
            if rng.chance(1, 6) {
                // garbage sector
                let mut junk = vec![0u8; 512];
                rng.fill(&mut junk);
                img.write(fo, &junk);
                what.push("fsinfo=random".into());
            }
            if rng.chance(1, 5) {
                img.set_u8(65, rng.below(4) as u8);
            }
            judge_mount(rep, args, bname, &what.join("+"), &img, true, J::u(i));
        }
    }
    // ---- whole boot sector random / truncated devices
    let n = if thorough { 1_000_000 } else { 6_000 } / nshards;
    for i in 0..n {
        let (bname, base) = &bases[rng.usize_below(bases.len())];
        let mut img = base.clone();
        let what;
        if rng.chance(1, 2) {
            let mut junk = vec![0u8; 512];
            rng.fill(&mut junk);
            // keep the signature sometimes so that validation goes deeper
            if rng.chance(2, 3) {
                junk[510] = 0x55;
                junk[511] = 0xAA;
            }
            img.write(0, &junk);
            what = "bootsector=random".to_string();
        } else {
            // random bytes of the BPB area replaced
            let cnt = 1 + rng.below(6);
            let mut w = Vec::new();
            for _ in 0..cnt {
                let off = 11 + rng.below(80);
                let v = rng.below(256) as u8;
                img.set_u8(off, v);
                w.push(format!("byte{}={:#x}", off, v));
            }
            what = w.join("+");
        }
        judge_mount(rep, args, bname, &what, &img, rng.chance(1, 2), J::u(i));
    }
    // short devices: image shorter than a sector / than the FS-info sector
    for len in [0u64, 1, 11, 36, 90, 511, 512, 513, 1023, 1024] {
        for (bname, base) in &bases {
            let bytes = base.bytes(0, len as usize);
            let img = Image::from_bytes(&bytes);
            rep.evaluations += 1;
            let o = try_mount(&img, true, false);
            rep.count(&format!("outcome:mount-short:{}", o.ek.name()), 1);
            if matches!(o.ek, EK::Panic | EK::Budget) {
                let d = format!("FileSystem::new on a {}-byte device ({}) did not return: {}", len, bname, o.detail);
                rep.viol("C07", &format!("C07|mount-{}|short-device", o.ek.name()), "mount-not-total", &d, J::obj().set("argv", J::arr_of_str(vec!["c07"])).set("detail", J::s(d.clone())));
            } else if o.ek == EK::Ok && len < 512 {
                let d = format!("FileSystem::new accepted a {}-byte device", len);
                rep.viol("C07", "C07|accepted-short-device", "accepted-incoherent", &d, J::obj().set("argv", J::arr_of_str(vec!["c07"])).set("detail", J::s(d.clone())));
            }
        }
    }
    rep.sample(J::obj().set("bases", J::arr_of_str(bases.iter().map(|b| b.0.clone()))).set("fields", J::arr_of_str(FIELDS.iter().map(|f| f.name))));
    rep.sample(J::s("fat32 base with root_dir_first_cluster=0x0, sectors_per_fat_32=0xffffffff, bytes_per_sector every 16-bit value, ..."));
    let _ = fatck::width_for;
}
