//! C18 (domain part): every representable date and time of day round-trips through set/flush/re-list at the
//! documented resolution and is stored in the specification's bit layout.
#![allow(dead_code)]

use std::panic::{catch_unwind, AssertUnwindSafe};

use crate::clock::Clock;
use crate::dev::MonDev;
use crate::fatck;
use crate::modes::Report;
use crate::sess::{take_panic, FEntry, Fs};
use crate::util::{Fnv, Rng, J};
use crate::vol::{make_volume, VolCfg};
use crate::Args;

fn find<'a>(fs: &'a Fs, name: &str) -> Option<FEntry<'a>> {
    for e in fs.root_dir().iter() {
        let e = e.ok()?;
        if e.short_file_name_as_bytes() == name.as_bytes() {
            return Some(e);
        }
    }
    None
}

struct Case {
    y: u16,
    mo: u16,
    d: u16,
    h: u16,
    mi: u16,
    s: u16,
    ms: u16,
}

pub fn run(args: &Args, rep: &mut Report) {
    let seed = args.u64("seed", 1);
    let (shard, nshards) = args.shard();
    let thorough = args.str("tier", "quick") == "thorough";
    let mut rng = Rng::derive(seed, 0xC18, shard);
    let fat = *rng.pick(&[12u8, 16, 32]);
    let vc = VolCfg { fat, bps: 512, spc: 1, nfats: 1, root_entries: if fat == 32 { 0 } else { 32 }, clusters: match fat { 12 => 100, 16 => 4100, _ => 65600 }, extra: 0, garbage: false, slack: 0, used_device: false };
    let (img, _) = make_volume(&vc).expect("volume");
    let dev = MonDev::new(img);
    dev.set_logging(false, false);
    let r = catch_unwind(AssertUnwindSafe(|| {
        let fs: Fs = fatfs::FileSystem::new(dev.handle(), fatfs::FsOptions::new().time_provider(Clock::new(500))).expect("mount");
        let mut f = fs.root_dir().create_file("T.BIN").expect("create");
        fatfs::Write::flush(&mut f).expect("flush");
        // raw slot offset of the entry
        let snap = dev.snapshot();
        let dec = fatck::decode(&snap, &fatck::DecodeOpts::default()).expect("decode");
        let slot = dec.root.nodes.iter().find(|n| &n.e.sfn == b"T       BIN").map(|n| n.e.sfn_off).expect("entry");
        let mut check = |c: &Case, rep: &mut Report, remount_probe: bool| {
            rep.evaluations += 1;
            let date = fatfs::Date::new(c.y, c.mo, c.d);
            let time = fatfs::Time::new(c.h, c.mi, c.s, c.ms);
            let dt = fatfs::DateTime::new(date, time);
            f.set_created(dt);
            f.set_modified(dt);
            f.set_accessed(date);
            if let Err(e) = fatfs::Write::flush(&mut f) {
                rep.viol("C18", "C18|flush-error", "flush-error", &format!("flush failed: {:?}", e), J::obj().set("argv", J::arr_of_str(vec!["c18"])));
                return;
            }
            let img = dev.snapshot();
            let raw = img.bytes(slot, 32);
            let w = |o: usize| u16::from_le_bytes([raw[o], raw[o + 1]]);
            let want_date = ((c.y - 1980) << 9) | (c.mo << 5) | c.d;
            let want_time = (c.h << 11) | (c.mi << 5) | (c.s / 2);
            let want_tenth = ((c.s % 2) * 100 + c.ms / 10) as u8;
            let what = format!("{:04}-{:02}-{:02} {:02}:{:02}:{:02}.{:03}", c.y, c.mo, c.d, c.h, c.mi, c.s, c.ms);
            let rj = |detail: &str| J::obj().set("argv", J::arr_of_str(vec!["c18".to_string()])).set("value", J::s(what.clone())).set("detail", J::s(detail));
            if w(16) != want_date || w(14) != want_time || raw[13] != want_tenth {
                let d = format!("created {} stored as date {:#06x} time {:#06x} tenths {} - specification layout gives {:#06x} {:#06x} {}", what, w(16), w(14), raw[13], want_date, want_time, want_tenth);
                rep.viol("C18", "C18|raw-created", "raw-layout", &d, rj(&d));
            }
            if w(24) != want_date || w(22) != want_time {
                let d = format!("modified {} stored as date {:#06x} time {:#06x} - specification layout gives {:#06x} {:#06x}", what, w(24), w(22), want_date, want_time);
                rep.viol("C18", "C18|raw-modified", "raw-layout", &d, rj(&d));
            }
            if w(18) != want_date {
                let d = format!("accessed {} stored as {:#06x} - specification layout gives {:#06x}", what, w(18), want_date);
                rep.viol("C18", "C18|raw-accessed", "raw-layout", &d, rj(&d));
            }
            // through the library: fresh listing (nothing is cached), optionally through a second mount
            let probe = |e: &FEntry<'_>, rep: &mut Report, how: &str| {
                let cr = e.created();
                let mo = e.modified();
                let ac = e.accessed();
                let ok_c = cr.date == date && cr.time.hour == c.h && cr.time.min == c.mi && cr.time.sec == c.s && cr.time.millis == c.ms / 10 * 10;
                let ok_m = mo.date == date && mo.time.hour == c.h && mo.time.min == c.mi && mo.time.sec == c.s / 2 * 2 && mo.time.millis == 0;
                let ok_a = ac == date;
                if !ok_c {
                    let d = format!("created {} reads back ({}) as {:?}", what, how, cr);
                    rep.viol("C18", "C18|roundtrip-created", "roundtrip", &d, rj(&d));
                }
                if !ok_m {
                    let d = format!("modified {} reads back ({}) as {:?}", what, how, mo);
                    rep.viol("C18", "C18|roundtrip-modified", "roundtrip", &d, rj(&d));
                }
                if !ok_a {
                    let d = format!("accessed {} reads back ({}) as {:?}", what, how, ac);
                    rep.viol("C18", "C18|roundtrip-accessed", "roundtrip", &d, rj(&d));
                }
            };
            match find(&fs, "T.BIN") {
                Some(e) => probe(&e, rep, "fresh listing"),
                None => {
                    rep.viol("C18", "C18|entry-lost", "entry-lost", "T.BIN disappeared", rj("entry lost"));
                }
            }
            if remount_probe {
                let d2 = MonDev::new(img.clone());
                d2.set_logging(false, false);
                if let Ok(fs2) = fatfs::FileSystem::new(d2.handle(), fatfs::FsOptions::new().time_provider(Clock::new(1))) {
                    let fs2: Fs = fs2;
                    if let Some(e) = find(&fs2, "T.BIN") {
                        probe(&e, rep, "second mount");
                    }
                    drop(fs2);
                }
                rep.count("remount_probes", 1);
            }
            let mut h = Fnv::new();
            h.u64(u64::from(want_date)).u64(u64::from(want_time)).u64(u64::from(want_tenth));
            rep.distinct.insert(h.get());
        };
        // ---- all dates (with a fixed and a varying time)
        let mut n = 0u64;
        for y in 1980..=2107u16 {
            for mo in 1..=12u16 {
                for d in 1..=31u16 {
                    n += 1;
                    if n % nshards != shard {
                        continue;
                    }
                    let c = Case { y, mo, d, h: (n % 24) as u16, mi: (n % 60) as u16, s: (n % 60) as u16, ms: ((n * 7) % 1000) as u16 };
                    check(&c, rep, n % 512 == shard);
                }
            }
        }
        // ---- all times of day at 10 ms steps (thorough), quick: every (h,m,s) at two ms values + random rest
        for h in 0..24u16 {
            for mi in 0..60u16 {
                for s in 0..60u16 {
                    n += 1;
                    if n % nshards != shard {
                        continue;
                    }
                    {
                        for step in 0..100u16 {
                            let c = Case { y: 1980 + (n % 128) as u16, mo: 1 + (n % 12) as u16, d: 1 + (n % 28) as u16, h, mi, s, ms: step * 10 + if step % 2 == 0 { 0 } else { 9 } };
                            check(&c, rep, false);
                        }
                    }
                    if !thorough || n % 16 == shard {
                        for ms in [0u16, 999, 10 * rng.below(100) as u16 + rng.below(10) as u16] {
                            let c = Case { y: 1980 + (n % 128) as u16, mo: 1 + (n % 12) as u16, d: 1 + (n % 28) as u16, h, mi, s, ms };
                            check(&c, rep, n % 4096 == shard);
                        }
                    }
                }
            }
        }
        drop(f);
        drop(fs);
    }));
    if r.is_err() {
        let (cls, full) = take_panic();
        rep.viol("C18", &format!("C18|panic|{}", cls), "panic", &format!("timestamp sweep panicked: {}", full), J::obj().set("argv", J::arr_of_str(vec!["c18"])));
    }
    rep.sample(J::s("1980-01-01 00:00:00.000 / 2107-12-31 23:59:59.999 / every (h,m,s) with ms in {0, 999, random}"));
    rep.extra.push(("volume".into(), vc.json()));
}
