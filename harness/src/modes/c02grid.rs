//! C02 (enumerated part): boundary grid around cluster multiples - initial size x seek target x seek form x
//! operation x buffer length, each executed as its own monitored history (model + raw decode + extents).
#![allow(dead_code)]

use crate::modes::sessmode::{unicode_build, VolCache};
use crate::modes::Report;
use crate::ops::{DirRef, Op};
use crate::sess::{run_session, SessCfg, VecSource};
use crate::util::{fnv_of, J};
use crate::vol::VolCfg;
use crate::Args;

fn boundary_values(cs: u64, size: u64) -> Vec<u64> {
    let mut v = vec![0, 1, cs - 1, cs, cs + 1, 2 * cs - 1, 2 * cs, 2 * cs + 1, 3 * cs - 1, 3 * cs, 3 * cs + 1, size.saturating_sub(1), size, size + 1];
    v.sort_unstable();
    v.dedup();
    v
}

fn write_all_ops(h: usize, from: u64, total: u64, cs: u64, out: &mut Vec<Op>) {
    // one Write per cluster piece: the crate transfers at most to the end of the current cluster
    let mut pos = from;
    let end = from + total;
    while pos < end {
        let n = (cs - pos % cs).min(end - pos);
        out.push(Op::Write { h, len: n as usize });
        pos += n;
    }
}

fn read_all_ops(h: usize, size: u64, cs: u64, out: &mut Vec<Op>) {
    out.push(Op::Seek { h, whence: 0, off: 0 });
    let mut pos = 0;
    while pos < size + 1 {
        out.push(Op::Read { h, len: cs as usize + 3 });
        pos += cs;
    }
}

pub fn run(args: &Args, rep: &mut Report) {
    let (shard, nshards) = args.shard();
    let thorough = args.str("tier", "quick") == "thorough";
    let mut cache = VolCache::new();
    let geos: Vec<(u16, u8)> = vec![(512, 1), (512, 2), (512, 8), (4096, 8), (4096, 128)];
    let mut n = 0u64;
    for (gi, (bps, spc)) in geos.iter().enumerate() {
        let cs = u64::from(*bps) * u64::from(*spc);
        for fat in [12u8, 16, 32] {
            // big clusters and wide FATs are sampled in the quick tier
            let sample: u64 = match (thorough, gi, fat) {
                (true, 4, _) => 16,
                (true, 3, _) => 4,
                (true, _, _) => 1,
                (false, 0, 12) | (false, 1, 12) | (false, 2, 16) => 1,
                (false, 4, _) => 150,
                (false, 3, _) => 20,
                (false, _, _) => 3,
            };
            let vc = VolCfg {
                fat,
                bps: *bps,
                spc: *spc,
                nfats: 2,
                root_entries: if fat == 32 { 0 } else { 16 * (*bps / 512) },
                clusters: match fat {
                    12 => 40,
                    16 => 4090,
                    _ => 65530,
                },
                extra: 0,
                garbage: true,
                slack: 0, used_device: false
            };
            let class = fnv_of(&[&vc.class()]);
            let init_sizes = boundary_values(cs, 2 * cs + 7);
            for init in &init_sizes {
                let targets = boundary_values(cs, *init);
                for tgt in &targets {
                    for whence in 0..3u8 {
                        for opk in 0..3u8 {
                            let lens: Vec<u64> = if opk == 2 { vec![0] } else { vec![0, 1, cs - 1, cs, cs + 1, 2 * cs + 1] };
                            for len in lens {
                                n += 1;
                                if n % nshards != shard || (n / nshards) % sample != 0 {
                                    continue;
                                }
                                let Ok((img, vb)) = cache.get(&vc) else { continue };
                                let mut ops: Vec<Op> = vec![Op::CreateFile { dir: DirRef::Root, path: "grid.bin".into(), slot: Some(0) }, Op::CreateFile { dir: DirRef::Root, path: "other.bin".into(), slot: Some(1) }];
                                // interleave with a second file so that the chain is fragmented
                                let mut pos = 0;
                                while pos < *init {
                                    let piece = (cs - pos % cs).min(*init - pos);
                                    ops.push(Op::Write { h: 0, len: piece as usize });
                                    ops.push(Op::Write { h: 1, len: (cs / 2) as usize });
                                    pos += piece;
                                }
                                ops.push(Op::Flush { h: 0 });
                                let off: i64 = match whence {
                                    0 => *tgt as i64,
                                    1 => *tgt as i64 - *init as i64, // cursor is at the end after the initial writes
                                    _ => *tgt as i64 - *init as i64,
                                };
                                ops.push(Op::Seek { h: 0, whence, off });
                                match opk {
                                    0 => ops.push(Op::Read { h: 0, len: len as usize }),
                                    1 => ops.push(Op::Write { h: 0, len: len as usize }),
                                    _ => ops.push(Op::Truncate { h: 0 }),
                                }
                                // a second call right behind the first: position after a boundary-straddling transfer
                                ops.push(Op::Write { h: 0, len: 5 });
                                ops.push(Op::Flush { h: 0 });
                                read_all_ops(0, 3 * cs + 8, cs, &mut ops);
                                ops.push(Op::Close { h: 0 });
                                ops.push(Op::Remount { how: (n % 2) as u8 });
                                ops.push(Op::OpenFile { dir: DirRef::Root, path: "GRID.BIN".into(), slot: Some(0) });
                                read_all_ops(0, 3 * cs + 8, cs, &mut ops);
                                let mut scfg = SessCfg::all(unicode_build());
                                scfg.props = ["C01", "C02", "C03", "C04"].into_iter().collect();
                                scfg.nhandles = 2;
                                scfg.lib_walk = cs <= 4096;
                                scfg.short_dev = if n % 3 == 2 { Some(0x5eed + n as u64) } else { None };
                                let mut src = VecSource::new(ops);
                                let o = run_session(&scfg, &img, vb, class, &mut src);
                                rep.evaluations += o.counters.api_calls;
                                rep.count("histories", 1);
                                for d in &o.distinct {
                                    rep.distinct.insert(*d);
                                }
                                rep.distinct.insert(fnv_of(&[&vc.class(), &format!("{}-{}-{}-{}-{}", init, tgt, whence, opk, len)]));
                                for ((k, ek), c) in &o.counters.op_outcomes {
                                    rep.count(&format!("outcome:{}:{}", k, ek), *c);
                                }
                                let case = format!("cluster {} B, FAT{}: initial size {}, seek {}({}) -> target {}, then {} of {} bytes", cs, fat, init, ["Start", "Current", "End"][whence as usize], off, tgt, ["read", "write", "truncate"][opk as usize], len);
                                if rep.samples.len() < 4 && n % 97 == shard {
                                    rep.sample(J::s(case.clone()));
                                }
                                if let Some(v) = o.violation {
                                    let d = format!("[{}] {}", case, v.detail);
                                    let rj = J::obj()
                                        .set("argv", J::arr_of_str(vec!["c02grid".to_string()]))
                                        .set("variant", J::s(crate::modes::sessmode::variant_name()))
                                        .set("case", J::s(case))
                                        .set("volume", vc.json())
                                        .set("minimised_ops", crate::ops::ops_json(&o.history[..(v.op_index + 1).min(o.history.len())]))
                                        .set("detail", J::s(d.clone()));
                                    let prop: &str = if v.prop == "C04" || v.prop == "C03" { "C02" } else { v.prop };
                                    rep.viol(prop, &format!("{}|grid", v.sig), &v.rule, &d, rj);
                                }
                            }
                        }
                    }
                }
            }
        }
    }
}
