//! C06: formatting yields a specification-valid empty volume for every accepted request.
#![allow(dead_code)]

use std::panic::{catch_unwind, AssertUnwindSafe};

use crate::dev::{Image, MonDev, PAGE};
use crate::fatck::{self, coherent, parse_raw_bpb, Geo, Vol};
use crate::model::{classify_err, EK};
use crate::modes::c07::try_mount;
use crate::modes::Report;
use crate::sess::take_panic;
use crate::util::{Fnv, Rng, J};
use crate::Args;

#[derive(Clone, Debug)]
pub struct FOpts {
    pub bps: u16,
    pub bpc: Option<u32>,
    pub fats: u8,
    pub root_entries: u16,
    pub fat: Option<u8>,
    pub label: Option<[u8; 11]>,
    pub volume_id: u32,
    pub media: u8,
    pub total: u32,
    /// pass total_sectors explicitly (else derived from the device length)
    pub explicit_total: bool,
    /// CHS geometry / drive number overrides (None = library default)
    pub chs: Option<(u16, u16, u8)>,
}

impl FOpts {
    pub fn default_for(total: u32) -> Self {
        FOpts { bps: 512, bpc: None, fats: 2, root_entries: 512, fat: None, label: None, volume_id: 0x1234_5678, media: 0xF8, total, explicit_total: true, chs: None }
    }
    pub fn is_default(&self) -> bool {
        self.bps == 512 && self.bpc.is_none() && self.fats == 2 && self.root_entries == 512 && self.fat.is_none()
    }
    pub fn show(&self) -> String {
        format!(
            "bps={} bytes_per_cluster={:?} fats={} root_entries={} fat_type={:?} label={} id={:#x} media={:#x} total_sectors={}{}",
            self.bps,
            self.bpc,
            self.fats,
            self.root_entries,
            self.fat,
            self.label.is_some(),
            self.volume_id,
            self.media,
            self.total,
            if self.explicit_total { "" } else { " (from device size)" }
        )
    }
    pub fn class(&self) -> String {
        format!("bps{}-bpc{:?}-f{}-re{}-t{:?}-l{}", self.bps, self.bpc, self.fats, self.root_entries, self.fat, self.label.is_some())
    }
    pub fn to_lib(&self) -> fatfs::FormatVolumeOptions {
        let mut o = fatfs::FormatVolumeOptions::new().bytes_per_sector(self.bps).fats(self.fats).max_root_dir_entries(self.root_entries).volume_id(self.volume_id).media(self.media);
        if let Some(b) = self.bpc {
            o = o.bytes_per_cluster(b);
        }
        if let Some(f) = self.fat {
            o = o.fat_type(match f {
                12 => fatfs::FatType::Fat12,
                16 => fatfs::FatType::Fat16,
                _ => fatfs::FatType::Fat32,
            });
        }
        if let Some(l) = self.label {
            o = o.volume_label(l);
        }
        if self.explicit_total {
            o = o.total_sectors(self.total);
        }
        if let Some((spt, heads, drive)) = self.chs {
            o = o.sectors_per_track(spt).heads(heads).drive_num(drive);
        }
        o
    }
}

/// Independent validation of the 512 boot-sector bytes produced for `o`.
pub fn check_boot(b: &[u8], o: &FOpts) -> Result<Geo, String> {
    if b[510] != 0x55 || b[511] != 0xAA {
        return Err("boot signature missing".into());
    }
    let raw = parse_raw_bpb(b);
    let g = coherent(&raw).map_err(|e| format!("incoherent geometry: {}", e))?;
    if g.total_sectors != u64::from(o.total) {
        return Err(format!("declares {} sectors, {} requested", g.total_sectors, o.total));
    }
    if g.bps != u64::from(o.bps) {
        return Err(format!("bytes/sector {} != requested {}", g.bps, o.bps));
    }
    if let Some(bpc) = o.bpc {
        if g.cluster_size != u64::from(bpc) {
            return Err(format!("cluster size {} != requested {}", g.cluster_size, bpc));
        }
    }
    if g.nfats != u64::from(o.fats) {
        return Err(format!("{} FATs != requested {}", g.nfats, o.fats));
    }
    if let Some(f) = o.fat {
        if g.fat_bits != u32::from(f) {
            return Err(format!("FAT{} produced, FAT{} requested", g.fat_bits, f));
        }
    }
    if g.fat_bits != 32 && g.root_entries != u64::from(o.root_entries) {
        return Err(format!("root entries {} != requested {}", g.root_entries, o.root_entries));
    }
    if g.fat_capacity() < g.total_clusters + 2 {
        return Err(format!("FAT holds {} entries but {} clusters need {}", g.fat_capacity(), g.total_clusters, g.total_clusters + 2));
    }
    if raw.media != o.media {
        return Err("media byte".into());
    }
    if raw.ext_sig != 0x29 || raw.volume_id != o.volume_id {
        return Err("volume id / extended signature".into());
    }
    let want_label = o.label.unwrap_or(*b"NO NAME    ");
    if raw.label != want_label {
        return Err("BPB volume label".into());
    }
    let want_type: &[u8; 8] = match g.fat_bits {
        12 => b"FAT12   ",
        16 => b"FAT16   ",
        _ => b"FAT32   ",
    };
    if &raw.fs_type != want_type {
        return Err("fs type label".into());
    }
    if raw.status != 0 {
        return Err("status byte not clean".into());
    }
    let (want_spt, want_heads, want_drive) = match o.chs {
        Some(x) => x,
        None => (0x20, 0x40, if g.fat_bits == 12 { 0 } else { 0x80 }),
    };
    if raw.spt != want_spt || raw.heads != want_heads || raw.drive_num != want_drive {
        return Err(format!("CHS geometry / drive number {}/{}/{:#x}, requested {}/{}/{:#x}", raw.spt, raw.heads, raw.drive_num, want_spt, want_heads, want_drive));
    }
    if raw.hidden != 0 {
        return Err("hidden sectors not zero".into());
    }
    if g.fat_bits == 32 {
        if g.fsinfo_sector == 0 || g.backup_sector == 0 || g.fsinfo_sector == g.backup_sector {
            return Err("FS-info / backup sector placement".into());
        }
        if g.ext_flags != 0 {
            return Err("extended flags".into());
        }
    }
    Ok(g)
}

/// Independent validation of a whole formatted image.
pub fn check_image(img: &Image, o: &FOpts, dev_len: u64, sentinel: Option<u8>) -> Result<Geo, String> {
    let b = img.bytes(0, 512);
    let g = check_boot(&b, o)?;
    let v = Vol { img, g: g.clone() };
    // rest of the first logical sector is zero
    if g.bps > 512 && img.bytes(512, (g.bps - 512) as usize).iter().any(|x| *x != 0) {
        return Err("tail of the boot sector's logical sector not zeroed".into());
    }
    let media = u32::from(o.media);
    let (f0, f1): (u32, u32) = match g.fat_bits {
        12 => (0xF00 | media, 0xFFF),
        16 => (0xFF00 | media, 0xFFFF),
        _ => (0x0FFF_FF00 | media, 0x0FFF_FFFF),
    };
    for c in 0..g.nfats {
        let a = v.fat_raw(c, 0) & 0x0FFF_FFFF;
        let b1 = v.fat_raw(c, 1) & 0x0FFF_FFFF;
        // FAT[0]: media descriptor in the low byte, all other bits set. FAT[1]: an end-of-chain mark with the
        // "clean shutdown" and "no hard error" bits (the two top bits on FAT16/32) set - any EOC value qualifies
        let f1_ok = b1 >= g.eoc_min() && b1 <= f1 && (g.fat_bits == 12 || (b1 >> (if g.fat_bits == 16 { 14 } else { 26 })) & 3 == 3);
        if a != f0 || !f1_ok {
            return Err(format!("FAT copy {}: entries 0/1 are {:#x}/{:#x}, expected {:#x} and an end-of-chain mark with the clean bits set", c, a, b1, f0));
        }
    }
    if let Some(d) = fatck::fat_copies_differ(img, &g) {
        return Err(d);
    }
    let mut used = Vec::new();
    v.for_each_used(|c, val| {
        if used.len() < 4 {
            used.push((c, val));
        }
    });
    if g.fat_bits == 32 {
        if used.len() != 1 || used[0].0 != g.root_cluster || !v.is_eoc(used[0].1) {
            return Err(format!("FAT32: expected only the root cluster {} allocated (EOC), found {:?}", g.root_cluster, used));
        }
        // backup boot sector identical
        let bk = img.bytes(g.backup_sector * g.bps, 512);
        if bk != b {
            return Err("backup boot sector differs from sector 0".into());
        }
        match fatck::fsinfo(img, &g) {
            None => return Err("FS-info signatures missing".into()),
            Some((cnt, hint)) => {
                if u64::from(cnt) != g.total_clusters - 1 {
                    return Err(format!("FS-info free count {} != clusters-1 = {}", cnt, g.total_clusters - 1));
                }
                if hint != 0xFFFF_FFFF && !(2..=g.max_cluster()).contains(&u64::from(hint)) {
                    return Err(format!("FS-info next-free hint {} out of range", hint));
                }
            }
        }
    } else if !used.is_empty() {
        return Err(format!("freshly formatted FAT has allocated entries: {:?}", used));
    }
    // root directory empty apart from the label
    let (root_off, root_len) = if g.fat_bits == 32 { (g.cluster_off(g.root_cluster), g.cluster_size) } else { (g.root_off(), g.root_len()) };
    let root = img.bytes(root_off, root_len as usize);
    let mut start = 0;
    if let Some(l) = o.label {
        if root[..11] != l || root[11] != 0x08 {
            return Err("label entry missing from the root directory".into());
        }
        if root[26..32].iter().any(|x| *x != 0) {
            return Err("label entry has cluster/size".into());
        }
        start = 32;
    }
    if root[start..].iter().any(|x| *x != 0) {
        return Err("root directory not empty / not zeroed".into());
    }
    // nothing at or past the declared end was touched
    if let Some(s) = sentinel {
        let end = g.vol_end();
        if dev_len > end {
            let tail = img.bytes(end, (dev_len - end).min(16384) as usize);
            if tail.iter().any(|x| *x != s) {
                return Err("bytes past the declared end of the volume were modified".into());
            }
        }
    }
    Ok(g)
}

pub enum FResult {
    Ok(Image),
    Err(EK),
    Panic(String, String),
}

pub fn do_format(o: &FOpts, garbage: bool, extra: u64) -> (FResult, u64) {
    let vol_bytes = u64::from(o.total) * u64::from(o.bps);
    let dev_len = vol_bytes + extra;
    let mut img = Image::new(dev_len);
    if garbage {
        img.set_fill_from(0, 0x21);
    }
    if extra > 0 {
        let s = vec![0xA5u8; extra as usize];
        img.write(vol_bytes, &s);
    }
    let dev = MonDev::new(img);
    dev.set_logging(false, false);
    dev.set_vol_end(vol_bytes);
    let mut d = dev.handle();
    let r = catch_unwind(AssertUnwindSafe(|| fatfs::format_volume(&mut d, o.to_lib())));
    match r {
        Ok(Ok(())) => (FResult::Ok(dev.snapshot()), dev_len),
        Ok(Err(e)) => (FResult::Err(classify_err(&e)), dev_len),
        Err(_) => {
            let (c, f) = take_panic();
            (FResult::Panic(c, f), dev_len)
        }
    }
}

fn replay(o: &FOpts, detail: &str, how: &str) -> J {
    J::obj()
        .set("argv", J::arr_of_str(vec!["c06".to_string(), "--only-opts".into(), o.show()]))
        .set("variant", J::s(crate::modes::sessmode::variant_name()))
        .set("profile", J::s(if cfg!(debug_assertions) { "relcheck" } else { "relwrap" }))
        .set("options", J::s(o.show()))
        .set("path", J::s(how))
        .set("detail", J::s(detail))
}

pub fn judge_real(rep: &mut Report, o: &FOpts, garbage: bool, extra: u64) {
    rep.evaluations += 1;
    let (r, dev_len) = do_format(o, garbage, extra);
    let mut f = Fnv::new();
    f.str(&o.class());
    match r {
        FResult::Panic(cls, full) => {
            rep.count("outcome:format:PANIC", 1);
            let d = format!("format_volume({}) panicked: {}", o.show(), full);
            rep.viol("C06", &format!("C06|format-panic|{}", cls), "format-panic", &d, replay(o, &d, "format_volume"));
            f.str("panic");
        }
        FResult::Err(ek) => {
            rep.count(&format!("outcome:format:{}", ek.name()), 1);
            f.str(ek.name());
            if ek != EK::InvalidInput {
                let d = format!("format_volume({}) failed with {} (only InvalidInput is documented for unsatisfiable requests)", o.show(), ek.name());
                rep.viol("C06", &format!("C06|format-error-kind|{}", ek.name()), "format-error-kind", &d, replay(o, &d, "format_volume"));
            } else if o.is_default() && o.total >= 42 {
                let d = format!("format_volume with default options rejected {} sectors", o.total);
                rep.viol("C06", "C06|default-rejected", "default-rejected", &d, replay(o, &d, "format_volume"));
            }
        }
        FResult::Ok(img) => {
            rep.count("outcome:format:Ok", 1);
            match check_image(&img, o, dev_len, if extra > 0 { Some(0xA5) } else { None }) {
                Err(why) => {
                    let cls: String = why.chars().filter(|c| !c.is_ascii_digit()).take(48).collect();
                    let d = format!("format_volume({}) succeeded but the image is not a valid empty volume: {}", o.show(), why);
                    rep.viol("C06", &format!("C06|invalid-image|{}", cls.trim()), "invalid-image", &d, replay(o, &d, "format_volume"));
                    f.str("invalid");
                }
                Ok(g) => {
                    f.u64(u64::from(g.fat_bits)).u64(g.cluster_size).u64(g.spf.min(64));
                    // mount + stats
                    let m = try_mount(&img, true, g.total_clusters < 400_000);
                    match (m.ek, m.geom) {
                        (EK::Ok, Some((ft, cs, total))) => {
                            if ft != g.fat_bits || u64::from(cs) != g.cluster_size || total.map_or(false, |t| u64::from(t) != g.total_clusters) {
                                let d = format!("formatted volume ({}) mounts as FAT{} cluster {} total {:?}; raw geometry FAT{} / {} / {}", o.show(), ft, cs, total, g.fat_bits, g.cluster_size, g.total_clusters);
                                rep.viol("C06", "C06|mount-geometry", "mount-geometry", &d, replay(o, &d, "format_volume+mount"));
                            }
                            if g.total_clusters < 400_000 {
                                if let Some(free) = free_after_mount(&img) {
                                    let want = if g.fat_bits == 32 { g.total_clusters - 1 } else { g.total_clusters };
                                    if u64::from(free) != want {
                                        let d = format!("formatted volume ({}): stats() reports {} free clusters, expected {}", o.show(), free, want);
                                        rep.viol("C06", "C06|free-after-format", "free-after-format", &d, replay(o, &d, "format_volume+stats"));
                                    }
                                }
                            }
                        }
                        (ek, _) => {
                            let d = format!("formatted volume ({}) does not mount: {} {}", o.show(), ek.name(), m.detail);
                            rep.viol("C06", &format!("C06|does-not-mount|{}", ek.name()), "does-not-mount", &d, replay(o, &d, "format_volume+mount"));
                        }
                    }
                }
            }
        }
    }
    rep.distinct.insert(f.get());
}

fn free_after_mount(img: &Image) -> Option<u32> {
    let dev = MonDev::new(img.clone());
    dev.set_logging(false, false);
    let clock = crate::clock::Clock::new(1);
    let r = catch_unwind(AssertUnwindSafe(|| {
        let fs: crate::sess::Fs = fatfs::FileSystem::new(dev.handle(), fatfs::FsOptions::new().time_provider(clock)).ok()?;
        let s = fs.stats().ok()?;
        drop(fs);
        Some(s.free_clusters())
    }));
    r.ok().flatten()
}

/// boot-sector-only path through the hook
pub fn judge_hook(rep: &mut Report, o: &FOpts, lib: &fatfs::FormatVolumeOptions, total: u32, stats: &mut [u64; 8]) {
    let r = catch_unwind(AssertUnwindSafe(|| fatfs::verif_hooks::format_boot_sector_bytes(lib, total)));
    match r {
        Err(_) => {
            let (cls, full) = take_panic();
            let mut oo = o.clone();
            oo.total = total;
            let d = format!("boot sector computation for {} panicked: {}", oo.show(), full);
            rep.viol("C06", &format!("C06|format-panic|{}", cls), "format-panic", &d, replay(&oo, &d, "hook"));
            stats[7] += 1;
        }
        Ok(Err(e)) => {
            let ek = classify_err(&e);
            stats[6] += 1;
            let mut oo = o.clone();
            oo.total = total;
            if ek != EK::InvalidInput {
                let d = format!("boot sector computation for {} failed with {}", oo.show(), ek.name());
                rep.viol("C06", &format!("C06|format-error-kind|{}", ek.name()), "format-error-kind", &d, replay(&oo, &d, "hook"));
            } else if o.is_default() && total >= 42 {
                let d = format!("default options rejected {} sectors", total);
                rep.viol("C06", "C06|default-rejected", "default-rejected", &d, replay(&oo, &d, "hook"));
            }
        }
        Ok(Ok(b)) => {
            let mut oo = o.clone();
            oo.total = total;
            match check_boot(&b, &oo) {
                Ok(g) => {
                    let k = match g.fat_bits {
                        12 => 0,
                        16 => 1,
                        _ => 2,
                    };
                    stats[k] += 1;
                    let mut f = Fnv::new();
                    f.str(&o.class()).u64(u64::from(g.fat_bits)).u64(g.cluster_size).u64(g.spf);
                    rep.distinct.insert(f.get());
                }
                Err(why) => {
                    let cls: String = why.chars().filter(|c| !c.is_ascii_digit()).take(48).collect();
                    let d = format!("boot sector for {} is not valid: {}", oo.show(), why);
                    rep.viol("C06", &format!("C06|invalid-image|{}", cls.trim()), "invalid-image", &d, replay(&oo, &d, "hook"));
                }
            }
        }
    }
}

fn threshold_sectors(bps: u16) -> Vec<u32> {
    let b = u64::from(bps);
    let kib = 1024u64;
    let mib = kib * kib;
    let gib = mib * kib;
    let mut v: Vec<u64> = Vec::new();
    for t in [4200 * kib, 16 * mib, 128 * mib, 260 * mib, 512 * mib, 8 * gib, 16 * gib, 32 * gib, mib, 2 * mib, 4 * mib, 8 * mib, 32 * mib, 64 * mib, 256 * mib, gib, 2 * gib, 4 * gib, 64 * gib, 128 * gib, 256 * gib, 512 * gib, 1024 * gib, 2048 * gib] {
        v.push(t / b);
    }
    // cluster-count limits for typical cluster sizes
    for spc in [1u64, 2, 4, 8, 16, 32, 64, 128] {
        for lim in [4085u64, 65525, 0x0FFF_FFF5] {
            v.push(lim * spc);
            v.push(lim * spc + 600);
            v.push(lim * spc + lim * 4 / b.max(1) * 2);
        }
    }
    for s in [0u64, 1, 8, 9, 10, 16, 17, 18, 40, 41, 42, 43, 50, 64, 100, 1000, 0xFFFF, 0x10000, 0xFFFF_FFFF] {
        v.push(s);
    }
    let mut out = Vec::new();
    for x in v {
        for d in [-2i64, -1, 0, 1, 2, 31, 64, 129] {
            let y = x as i64 + d;
            if (0..=i64::from(u32::MAX)).contains(&y) {
                out.push(y as u32);
            }
        }
    }
    out.sort_unstable();
    out.dedup();
    out
}

fn random_opts(rng: &mut Rng) -> FOpts {
    // sector sizes above 4096 pass the option builder but are unsatisfiable (the specification stops at 4096)
    let bps = *rng.pick(&[512u16, 512, 512, 1024, 1024, 2048, 2048, 4096, 4096, 8192, 16384, 32768]);
    let bpc = match rng.below(8) {
        0..=2 => None,
        _ => Some(u32::from(bps) << rng.below(9).min(8)),
    };
    let bpc = bpc.filter(|b| *b <= 512 * 1024);
    let fat = *rng.pick(&[None, None, Some(12u8), Some(16), Some(32)]);
    let total: u32 = match rng.below(6) {
        0 => rng.below(200) as u32,
        1 => *rng.pick(&threshold_sectors(bps)),
        2 => (rng.next_u32() >> rng.below(31)).max(1),
        3 => {
            // aim at a cluster-count limit for this cluster size
            let spc = bpc.map_or(1, |b| b / u32::from(bps)).max(1);
            let lim = *rng.pick(&[4085u32, 65525]);
            (lim + rng.below(80) as u32 - 40).saturating_mul(spc).saturating_add(rng.below(600) as u32)
        }
        _ => (1u32 << rng.below(24)) + rng.below(4096) as u32,
    };
    let mut label = None;
    if rng.chance(1, 3) {
        let mut l = *b"VERIF LABEL";
        l[0] = b'A' + rng.below(26) as u8;
        label = Some(l);
    }
    FOpts {
        bps,
        bpc,
        fats: 1 + rng.below(2) as u8,
        root_entries: *rng.pick(&[1u16, 15, 16, 17, 224, 512, 512, 513, 65535, 64, 128, 0]),
        fat,
        label,
        volume_id: rng.next_u32(),
        media: *rng.pick(&[0xF8u8, 0xF0, 0xF9, 0xFF]),
        total,
        explicit_total: !rng.chance(1, 6),
        chs: if rng.chance(1, 3) { Some((rng.below(65536) as u16, rng.below(65536) as u16, rng.below(256) as u8)) } else { None },
    }
}

pub fn run(args: &Args, rep: &mut Report) {
    let seed = args.u64("seed", 1);
    let (shard, nshards) = args.shard();
    let thorough = args.str("tier", "quick") == "thorough";
    let mut rng = Rng::derive(seed, 0xC06, shard);
    let part = args.str("part", "all");
    // ---------- part A: real format_volume on the sparse device
    if part == "all" || part == "real" {
        // thresholds with default options (sizes capped so that zero-filling stays cheap)
        let cap: u32 = if thorough { 1 << 27 } else { 1 << 24 };
        let mut n = 0u64;
        for t in threshold_sectors(512) {
            if t > cap {
                continue;
            }
            n += 1;
            if n % nshards != shard {
                continue;
            }
            let o = FOpts::default_for(t);
            judge_real(rep, &o, t < 1_500_000, 4096);
        }
        let count = if thorough { 12_000 } else { 1_200 } / nshards;
        for _ in 0..count {
            let mut o = random_opts(&mut rng);
            let bytes = u64::from(o.total) * u64::from(o.bps);
            let capb: u64 = if thorough { 8 << 30 } else { 1 << 30 };
            if bytes > capb {
                o.total = (capb / u64::from(o.bps)) as u32 - rng.below(5000) as u32;
            }
            // garbage-filled storage (FATs and directories must be zeroed explicitly); cheap as long as the FAT is small
            let small = u64::from(o.total) * u64::from(o.bps) < (1 << 30);
            let extra = if o.explicit_total { *rng.pick(&[0u64, 4096, 513]) } else { rng.below(u64::from(o.bps)) };
            judge_real(rep, &o, small && rng.chance(1, 2), extra);
            if rep.samples.len() < 3 {
                rep.sample(J::s(o.show()));
            }
        }
        // a few big ones: beyond 4 GiB / 2 TiB limits with large clusters (FAT stays small enough)
        if shard == 0 {
            for (total, bps, bpc) in [(0xFFFF_FFFFu32, 512u16, Some(32768u32)), (0xFFFF_FFFF, 4096, Some(524_288)), (1 << 26, 4096, None)] {
                let mut o = FOpts::default_for(total);
                o.bps = bps;
                o.bpc = bpc;
                if thorough || bps == 4096 {
                    judge_real(rep, &o, false, 0);
                }
            }
        }
    }
    // a device with more than 2^32-1 sectors and no explicit sector count must be refused, not truncated
    if (part == "all" || part == "real") && shard == 0 {
        for (bps, sectors) in [(512u16, (1u64 << 32) + 7), (4096, 1u64 << 32), (512, u64::from(u32::MAX)), (512, (1u64 << 32) + 42), (512, (1u64 << 32) + 100_000), (512, 3u64 << 31), (4096, (1u64 << 32) + 5_000), (512, (1u64 << 33) + (1 << 20)), (1024, (1u64 << 32) + 8_000_000)] {
            rep.evaluations += 1;
            let img = Image::new(sectors * u64::from(bps));
            let dev = MonDev::new(img);
            dev.set_logging(false, false);
            let mut d = dev.handle();
            let r = catch_unwind(AssertUnwindSafe(|| fatfs::format_volume(&mut d, fatfs::FormatVolumeOptions::new().bytes_per_sector(bps))));
            let too_big = sectors > u64::from(u32::MAX);
            let what = format!("format_volume on a device of {} sectors of {} bytes without total_sectors", sectors, bps);
            match r {
                Err(_) => {
                    let (cls, full) = take_panic();
                    rep.viol("C06", &format!("C06|format-panic|{}", cls), "format-panic", &format!("{} panicked: {}", what, full), J::obj().set("argv", J::arr_of_str(vec!["c06"])));
                }
                Ok(Ok(())) if too_big => {
                    rep.viol("C06", "C06|oversized-device-accepted", "oversized-device-accepted", &format!("{} succeeded", what), J::obj().set("argv", J::arr_of_str(vec!["c06"])));
                }
                Ok(Err(e)) if classify_err(&e) != EK::InvalidInput => {
                    rep.viol("C06", "C06|format-error-kind|oversized", "format-error-kind", &format!("{} failed with {:?}", what, classify_err(&e)), J::obj().set("argv", J::arr_of_str(vec!["c06"])));
                }
                Ok(Err(_)) if !too_big => {
                    rep.viol("C06", "C06|default-rejected", "default-rejected", &format!("{} was rejected", what), J::obj().set("argv", J::arr_of_str(vec!["c06"])));
                }
                _ => {}
            }
        }
    }
    // ---------- part B: boot sector sweep through the hook
    if part == "all" || part == "hook" {
        let mut stats = [0u64; 8];
        let def = FOpts::default_for(0);
        let lib = def.to_lib_no_total();
        if thorough {
            // every sector count of the 32-bit range with default options
            let span = (1u64 << 32) / nshards;
            let lo = shard * span;
            let hi = if shard == nshards - 1 { 1u64 << 32 } else { lo + span };
            for t in lo..hi {
                judge_hook(rep, &def, &lib, t as u32, &mut stats);
            }
            rep.evaluations += hi - lo;
            rep.extra.push(("hook_sweep_range".into(), J::s(format!("[{}, {}) of 2^32, default options, exhaustive over all shards", lo, hi))));
        } else {
            let mut n = 0u64;
            // every threshold +- 4096
            for t in threshold_sectors(512) {
                n += 1;
                if n % nshards != shard {
                    continue;
                }
                let lo = t.saturating_sub(4096);
                let hi = t.saturating_add(4096);
                for x in lo..=hi {
                    judge_hook(rep, &def, &lib, x, &mut stats);
                    rep.evaluations += 1;
                }
            }
            // stride over the whole range
            let stride = 1u64 << 11;
            let mut t = shard * stride + rng.below(stride);
            while t < (1u64 << 32) {
                judge_hook(rep, &def, &lib, t as u32, &mut stats);
                rep.evaluations += 1;
                t += stride * nshards;
            }
            // the first 300000 sizes completely
            let span = 300_000 / nshards;
            for t in shard * span..(shard + 1) * span {
                judge_hook(rep, &def, &lib, t as u32, &mut stats);
                rep.evaluations += 1;
            }
        }
        // other sector sizes / forced types / cluster sizes: strided sweeps
        let variants = if thorough { 160 } else { 24 };
        for _ in 0..variants {
            let mut o = random_opts(&mut rng);
            o.explicit_total = true;
            let lib = o.to_lib_no_total();
            let points = if thorough { 200_000 } else { 20_000 };
            for _ in 0..points {
                let t = match rng.below(4) {
                    0 => rng.next_u32(),
                    1 => rng.next_u32() >> rng.below(32),
                    2 => *rng.pick(&threshold_sectors(o.bps)),
                    _ => (1u32 << rng.below(32)).wrapping_add(rng.below(1 << 12) as u32),
                };
                judge_hook(rep, &o, &lib, t, &mut stats);
                rep.evaluations += 1;
            }
        }
        // dense windows where the cluster count crosses a FAT type limit, for explicit cluster sizes
        let mut wn = 0u64;
        for bps in [512u16, 4096] {
            for spc in [1u32, 2, 8, 64] {
                for fats in [1u8, 2] {
                    for fat in [None, Some(12u8), Some(16), Some(32)] {
                        for root_entries in [512u16, 16] {
                            wn += 1;
                            if wn % nshards != shard {
                                continue;
                            }
                            let mut o = FOpts::default_for(0);
                            o.bps = bps;
                            o.bpc = Some(u32::from(bps) * spc);
                            o.fats = fats;
                            o.fat = fat;
                            o.root_entries = root_entries;
                            let lib = o.to_lib_no_total();
                            for lim in [4085u64, 65525] {
                                let lo = (lim - 3) * u64::from(spc);
                                let hi = (lim + 3) * u64::from(spc) + 1200;
                                for t in lo..hi.min(u64::from(u32::MAX)) {
                                    judge_hook(rep, &o, &lib, t as u32, &mut stats);
                                    rep.evaluations += 1;
                                }
                            }
                        }
                    }
                }
            }
        }
        rep.count("hook:fat12", stats[0]);
        rep.count("hook:fat16", stats[1]);
        rep.count("hook:fat32", stats[2]);
        rep.count("hook:rejected", stats[6]);
        rep.count("hook:panics", stats[7]);
    }
    let _ = PAGE;
}

impl FOpts {
    pub fn to_lib_no_total(&self) -> fatfs::FormatVolumeOptions {
        let mut o = self.clone();
        o.explicit_total = false;
        o.to_lib()
    }
}
