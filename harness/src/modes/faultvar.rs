//! Fault variants of C12 and C14: the property must also hold when a single storage write fails transiently and
//! the session carries on (retry). One-shot write faults are injected at every write index of short scripted
//! histories; only raw-image oracles are used (no reference model: the outcome of a failed call is unspecified).
#![allow(dead_code)]

use std::panic::{catch_unwind, AssertUnwindSafe};

use crate::clock::Clock;
use crate::dev::{EvKind, FaultPlan, Image, MonDev};
use crate::fatck::{self, Region};
use crate::model::Model;
use crate::modes::Report;
use crate::ops::{DirRef, Op};
use crate::sess::{exec, take_panic, Fs, H};
use crate::util::{Fnv, Rng, J};
use crate::vol::{make_volume, VolCfg};
use crate::Args;

fn vols() -> Vec<VolCfg> {
    vec![
        VolCfg { fat: 12, bps: 512, spc: 1, nfats: 2, root_entries: 32, clusters: 100, extra: 0, garbage: false, slack: 0, used_device: false },
        VolCfg { fat: 16, bps: 512, spc: 2, nfats: 1, root_entries: 32, clusters: 4100, extra: 0, garbage: false, slack: 0, used_device: false },
        VolCfg { fat: 32, bps: 512, spc: 1, nfats: 2, root_entries: 0, clusters: 65600, extra: 0, garbage: false, slack: 0, used_device: false },
    ]
}

fn script(rng: &mut Rng, cs: usize) -> Vec<Op> {
    let r = DirRef::Root;
    let mut pool = vec![
        vec![Op::CreateFile { dir: r.clone(), path: "first file with a long name.txt".into(), slot: Some(0) }, Op::Write { h: 0, len: cs + 7 }, Op::Flush { h: 0 }],
        vec![Op::CreateDir { dir: r.clone(), path: "some directory".into(), slot: None }, Op::CreateFile { dir: r.clone(), path: "some directory/inner.bin".into(), slot: Some(1) }, Op::Write { h: 1, len: 100 }, Op::Close { h: 1 }],
        vec![Op::CreateFile { dir: r.clone(), path: "b.bin".into(), slot: Some(2) }, Op::Write { h: 2, len: 2 * cs }, Op::Seek { h: 2, whence: 0, off: (cs / 2) as i64 }, Op::Truncate { h: 2 }, Op::Close { h: 2 }],
        vec![Op::CreateFile { dir: r.clone(), path: "victim.txt".into(), slot: None }, Op::Rename { sdir: r.clone(), src: "victim.txt".into(), ddir: r.clone(), dst: "renamed victim.txt".into() }, Op::Remove { dir: r.clone(), path: "renamed victim.txt".into() }],
    ];
    // random order of the blocks, each block kept in order
    let mut out = Vec::new();
    while !pool.is_empty() {
        let i = rng.usize_below(pool.len());
        out.extend(pool.remove(i));
    }
    out.push(Op::Close { h: 0 });
    out
}

/// C12 under a one-shot write fault: at every call boundary, if the image differs from the mount-time image anywhere
/// outside the status byte / FS-info sector, the dirty bit must be set. (Frozen clock: no timestamp-only writes.)
pub fn run_c12(args: &Args, rep: &mut Report) {
    let seed = args.u64("seed", 1);
    let (shard, nshards) = args.shard();
    let thorough = args.str("tier", "quick") == "thorough";
    let mut n = 0u64;
    for vc in vols() {
        let Ok((img0, _)) = make_volume(&vc) else { continue };
        let g = fatck::geo_of(&img0).unwrap();
        let cs = g.cluster_size as usize;
        let scripts = if thorough { 12 } else { 3 };
        for si in 0..scripts {
            let mut rng = Rng::derive(seed, 0xC12F, si);
            let ops = script(&mut rng, cs);
            // number of device writes of the fault-free run
            let total_writes = run_one(&img0, &g, &ops, None, rep, &vc, si, true);
            for k in 1..=total_writes {
                n += 1;
                if n % nshards != shard {
                    continue;
                }
                run_one(&img0, &g, &ops, Some(k), rep, &vc, si, false);
            }
        }
    }
}

#[allow(clippy::too_many_arguments)]
fn run_one(img0: &Image, g: &fatck::Geo, ops: &[Op], fault_at_write: Option<u64>, rep: &mut Report, vc: &VolCfg, si: u64, count_only: bool) -> u64 {
    let dev = MonDev::new(img0.clone());
    dev.set_logging(false, false);
    dev.set_budget(Some(5_000_000));
    let clock = Clock::new(40);
    clock.0.frozen.set(true);
    let model = Model::new(true, 4);
    let mut fault_op: Option<usize> = None;
    let r = catch_unwind(AssertUnwindSafe(|| -> Option<(String, String)> {
        let fs: Fs = match fatfs::FileSystem::new(dev.handle(), fatfs::FsOptions::new().time_provider(clock.clone())) {
            Ok(f) => f,
            Err(_) => return None,
        };
        let mut hs: Vec<Option<H<'_>>> = (0..4).map(|_| None).collect();
        dev.begin_call();
        if let Some(k) = fault_at_write {
            dev.set_fault(Some(FaultPlan { k, kinds: EvKind::Write.bit(), code: 0xBAD }));
        }
        let mut verdict = None;
        for (i, op) in ops.iter().enumerate() {
            let _ = exec(&fs, &mut hs, op, i as u64 + 1, &model);
            if fault_op.is_none() && dev.fired().is_some() {
                fault_op = Some(i);
            }
            // boundary: compare with the mount-time image
            let img = dev.snapshot();
            let changed = img0.diff(&img).iter().any(|(a, b)| {
                let mut o = *a;
                let mut hit = false;
                while o < *b {
                    match g.region(o) {
                        Region::BootStatus | Region::FsInfo => {}
                        _ => hit = true,
                    }
                    o += 1;
                    if hit {
                        break;
                    }
                }
                hit
            });
            let st = img.u8(g.status_off);
            if changed && st & 1 == 0 && verdict.is_none() {
                verdict = Some((
                    op.kind().to_string(),
                    format!(
                        "after {} (call #{}; a single device write had failed during call #{:?}): the volume differs from its mount-time state but the status byte is {:#04x} (dirty bit clear)",
                        op.show(),
                        i,
                        fault_op,
                        st
                    ),
                ));
            }
        }
        drop(hs);
        drop(fs);
        verdict
    }));
    let writes = dev.0.borrow().n_writes;
    if count_only {
        return writes;
    }
    rep.evaluations += 1;
    let mut f = Fnv::new();
    f.str(&vc.class()).u64(si).u64(fault_at_write.unwrap_or(0));
    rep.distinct.insert(f.get());
    let rj = |d: &str| {
        J::obj()
            .set("argv", J::arr_of_str(vec!["c12fault".to_string()]))
            .set("variant", J::s(crate::modes::sessmode::variant_name()))
            .set("volume", vc.json())
            .set("script", crate::ops::ops_json(ops))
            .set("failed_write_index", J::u(fault_at_write.unwrap_or(0)))
            .set("detail", J::s(d))
    };
    match r {
        Ok(Some((kind, d))) => {
            rep.viol("C12", &format!("C12|dirty-bit-clear-after-transient-write-fault|{}", kind), "dirty-bit-clear", &d, rj(&d));
            rep.count("outcome:faulted-history:VIOLATION", 1);
        }
        Ok(None) => rep.count("outcome:faulted-history:held", 1),
        Err(_) => {
            let (cls, full) = take_panic();
            if !cls.contains("BUDGET") {
                let d = format!("history with a transient write fault panicked: {}", full);
                rep.viol("C12", &format!("C12|panic-after-fault|{}", cls), "panic", &d, rj(&d));
            }
        }
    }
    writes
}

/// C14 under a one-shot fault: a flush that fails once and succeeds when retried must still make the file durable.
pub fn run_c14(args: &Args, rep: &mut Report) {
    let (shard, nshards) = args.shard();
    let mut n = 0u64;
    for vc in vols() {
        let Ok((img0, _)) = make_volume(&vc) else { continue };
        let g = fatck::geo_of(&img0).unwrap();
        let cs = g.cluster_size as usize;
        for (variant, len) in [(0u8, cs * 2 + 17), (1, 10), (2, cs)] {
            for kinds in [EvKind::Write.bit(), EvKind::Flush.bit(), EvKind::Seek.bit()] {
                for k in 1..=40u64 {
                    n += 1;
                    if n % nshards != shard {
                        continue;
                    }
                    let dev = MonDev::new(img0.clone());
                    dev.set_logging(true, false);
                    let clock = Clock::new(90);
                    let content: Vec<u8> = (0..len).map(|i| (i * 13 + 5) as u8).collect();
                    let r = catch_unwind(AssertUnwindSafe(|| -> Result<Option<String>, String> {
                        let fs: Fs = fatfs::FileSystem::new(dev.handle(), fatfs::FsOptions::new().time_provider(clock.clone())).map_err(|e| format!("{:?}", e))?;
                        let dir = if variant == 1 { fs.root_dir().create_dir("sub dir").map_err(|e| format!("{:?}", e))? } else { fs.root_dir() };
                        let mut f = dir.create_file("durable file.bin").map_err(|e| format!("{:?}", e))?;
                        let mut done = 0;
                        while done < content.len() {
                            done += fatfs::Write::write(&mut f, &content[done..]).map_err(|e| format!("{:?}", e))?;
                        }
                        dev.begin_call();
                        dev.set_fault(Some(FaultPlan { k, kinds, code: 0xF1 }));
                        let first = fatfs::Write::flush(&mut f);
                        let fired = dev.fired().is_some();
                        dev.set_fault(None);
                        if !fired {
                            return Ok(None); // fewer than k calls of that kind in a flush
                        }
                        if first.is_ok() {
                            return Ok(None); // C09's business
                        }
                        dev.begin_call();
                        let second = fatfs::Write::flush(&mut f);
                        if second.is_err() {
                            return Ok(None);
                        }
                        // the retried flush reported success: the file must be durable now
                        let log = dev.take_log();
                        let last_w = log.iter().rposition(|e| e.kind == EvKind::Write);
                        let last_f = log.iter().rposition(|e| e.kind == EvKind::Flush);
                        let crash = dev.snapshot();
                        drop(f);
                        drop(dir);
                        drop(fs);
                        if let (Some(w), fl) = (last_w, last_f) {
                            if fl.map_or(true, |x| x < w) {
                                return Ok(Some("the retried flush wrote to the device without flushing it afterwards".into()));
                            }
                        } else if last_f.is_none() {
                            return Ok(Some("the retried flush returned Ok without a device flush".into()));
                        }
                        let path = if variant == 1 { "sub dir/durable file.bin" } else { "durable file.bin" };
                        let d2 = MonDev::new(crash);
                        d2.set_logging(false, false);
                        let fs2: Fs = fatfs::FileSystem::new(d2.handle(), fatfs::FsOptions::new().time_provider(Clock::new(1))).map_err(|e| format!("remount: {:?}", e))?;
                        let mut back = Vec::new();
                        match fs2.root_dir().open_file(path) {
                            Ok(mut f2) => {
                                let mut buf = vec![0u8; 4096];
                                loop {
                                    match fatfs::Read::read(&mut f2, &mut buf) {
                                        Ok(0) => break,
                                        Ok(n) => back.extend_from_slice(&buf[..n]),
                                        Err(e) => return Ok(Some(format!("read after power cut failed: {:?}", e))),
                                    }
                                }
                            }
                            Err(e) => return Ok(Some(format!("file not found after power cut: {:?}", e))),
                        }
                        drop(fs2);
                        if back != content {
                            return Ok(Some(format!("after the power cut the file has {} bytes, {} were flushed", back.len(), content.len())));
                        }
                        Ok(None)
                    }));
                    rep.evaluations += 1;
                    let mut h = Fnv::new();
                    h.str(&vc.class()).u64(u64::from(variant)).u64(u64::from(kinds)).u64(k);
                    rep.distinct.insert(h.get());
                    let kind_name = match kinds {
                        2 => "write",
                        8 => "flush",
                        _ => "seek",
                    };
                    match r {
                        Ok(Ok(None)) => rep.count("outcome:retry-flush:held-or-no-claim", 1),
                        Ok(Ok(Some(why))) => {
                            let d = format!("[{} file of {} bytes] flush failed once ({} call #{} of the flush failed), the retried flush returned Ok, but: {}", vc.label(), len, kind_name, k, why);
                            let rj = J::obj().set("argv", J::arr_of_str(vec!["c14fault".to_string()])).set("volume", vc.json()).set("k", J::u(k)).set("detail", J::s(d.clone()));
                            rep.viol("C14", &format!("C14|retried-flush-not-durable|{}", kind_name), "retried-flush-not-durable", &d, rj);
                        }
                        Ok(Err(e)) => {
                            if rep.inconclusive.len() < 3 {
                                rep.inconclusive.push(format!("c14 fault variant setup: {}", e));
                            }
                        }
                        Err(_) => {
                            let (cls, full) = take_panic();
                            let d = format!("flush retry scenario panicked: {}", full);
                            rep.viol("C14", &format!("C14|panic|{}", cls), "panic", &d, J::obj().set("argv", J::arr_of_str(vec!["c14fault"])).set("detail", J::s(d.clone())));
                        }
                    }
                }
            }
        }
    }
}

/// C05 under a one-shot fault on a data transfer: `File::write` allocates a cluster and then moves the payload. If that
/// transfer fails the call fails, but the cluster must stay reachable through the file, so that closing and removing
/// the file (with or without a successful retry in between) gives every cluster back. Faults on metadata writes are
/// not judged (an interrupted table update may legitimately strand a cluster).
pub fn run_c05(args: &Args, rep: &mut Report) {
    let (shard, nshards) = args.shard();
    let mut n = 0u64;
    for vc in vols() {
        let Ok((img0, _)) = make_volume(&vc) else { continue };
        let g = fatck::geo_of(&img0).unwrap();
        let cs = g.cluster_size as usize;
        let r = DirRef::Root;
        // (name, operations before the target write, target write length, retry after the failure?)
        let cases: Vec<(&str, Vec<Op>, usize, bool)> = vec![
            ("first-cluster", vec![], 100, false),
            ("first-cluster-retry", vec![], 100, true),
            ("second-cluster", vec![Op::Write { h: 0, len: cs }], cs, false),
            ("second-cluster-retry", vec![Op::Write { h: 0, len: cs }], 7, true),
            ("after-truncate-to-zero", vec![Op::Write { h: 0, len: cs + 3 }, Op::Seek { h: 0, whence: 0, off: 0 }, Op::Truncate { h: 0 }], cs, true),
            ("in-subdirectory", vec![], cs, false),
        ];
        for (ci, (cname, pre, len, retry)) in cases.iter().enumerate() {
            let path = if *cname == "in-subdirectory" { "sub dir/leak candidate.bin" } else { "leak candidate.bin" };
            for k in 1..=12u64 {
                n += 1;
                if n % nshards != shard {
                    continue;
                }
                let dev = MonDev::new(img0.clone());
                dev.set_logging(false, false);
                dev.set_budget(Some(5_000_000));
                let clock = Clock::new(60);
                let model = Model::new(true, 4);
                let res = catch_unwind(AssertUnwindSafe(|| -> Result<Option<String>, String> {
                    let fs: Fs = fatfs::FileSystem::new(dev.handle(), fatfs::FsOptions::new().time_provider(clock.clone())).map_err(|e| format!("mount: {:?}", e))?;
                    let mut hs: Vec<Option<H<'_>>> = (0..4).map(|_| None).collect();
                    let mut step = 0u64;
                    macro_rules! run {
                        ($op:expr, $hs:expr) => {{
                            step += 1;
                            exec(&fs, $hs, $op, step, &model)
                        }};
                    }
                    if *cname == "in-subdirectory" {
                        let o = run!(&Op::CreateDir { dir: r.clone(), path: "sub dir".into(), slot: None }, &mut hs);
                        if o.ek.is_some() {
                            return Err("setup create_dir failed".into());
                        }
                    }
                    let o = run!(&Op::CreateFile { dir: r.clone(), path: path.into(), slot: Some(0) }, &mut hs);
                    if o.ek.is_some() {
                        return Err("setup create_file failed".into());
                    }
                    let o = run!(&Op::Flush { h: 0 }, &mut hs);
                    if o.ek.is_some() {
                        return Err("setup flush failed".into());
                    }
                    // free entries of the table while the file exists and is empty
                    let base = fatck::decode(&dev.snapshot(), &fatck::DecodeOpts::default()).map_err(|e| format!("decode: {}", e))?.free_count;
                    for op in pre {
                        if run!(op, &mut hs).ek.is_some() {
                            return Err(format!("setup {} failed", op.show()));
                        }
                    }
                    dev.begin_call();
                    dev.set_fault(Some(FaultPlan { k, kinds: EvKind::Write.bit(), code: 0xC05 }));
                    // (the driver tags the payload by operation id and by the reference model's cursor, which stays 0 here)
                    let pos_before: u64 = 0;
                    let o = run!(&Op::Write { h: 0, len: *len }, &mut hs);
                    let fired = dev.fired();
                    dev.set_fault(None);
                    let Some(fired) = fired else { return Ok(None) };
                    // only payload transfers are judged: the failed device write carried the bytes handed to write()
                    // (zero-filling a fresh cluster, say, is part of the allocation and may strand the cluster)
                    let payload_head: Vec<u8> = (0..(*len as u64).min(8)).map(|i| crate::model::tag_byte(step, pos_before + i)).collect();
                    if !matches!(g.region(fired.off), Region::Data(_)) || o.ek.is_none() || fired.head.is_empty() || !payload_head.starts_with(&fired.head) {
                        return Ok(None);
                    }
                    dev.begin_call();
                    if *retry {
                        let o2 = run!(&Op::Write { h: 0, len: *len }, &mut hs);
                        if o2.ek.is_some() {
                            return Ok(None);
                        }
                    }
                    if run!(&Op::Close { h: 0 }, &mut hs).ek.is_some() {
                        return Ok(None);
                    }
                    let o3 = run!(&Op::Remove { dir: r.clone(), path: path.into() }, &mut hs);
                    if o3.ek.is_some() {
                        return Ok(Some(format!("removing the file afterwards failed with {:?}", o3.ek.map(|e| e.name()))));
                    }
                    drop(hs);
                    fs.unmount().map_err(|e| format!("unmount: {:?}", e))?;
                    let dec = fatck::decode(&dev.snapshot(), &fatck::DecodeOpts::default()).map_err(|e| format!("decode: {}", e))?;
                    if dec.free_count != base {
                        return Ok(Some(format!("{} clusters were free while the file was empty, {} are free after it was removed", base, dec.free_count)));
                    }
                    if let Some(d) = dec.diags.iter().find(|d| d.code == "I3-lost") {
                        return Ok(Some(format!("lost clusters after the file was removed: {}", d.msg)));
                    }
                    Ok(Some(String::new()))
                }));
                let mut h = Fnv::new();
                h.str(&vc.class()).u64(ci as u64).u64(k);
                match res {
                    Ok(Ok(None)) => rep.count("outcome:payload-fault:not-applicable", 1),
                    Ok(Ok(Some(why))) if why.is_empty() => {
                        rep.evaluations += 1;
                        rep.distinct.insert(h.get());
                        rep.count("outcome:payload-fault:all-clusters-returned", 1);
                    }
                    Ok(Ok(Some(why))) => {
                        rep.evaluations += 1;
                        rep.distinct.insert(h.get());
                        let d = format!("[{} / {}] the payload transfer of a write failed once (device write #{} of the call){}, the file was closed and removed: {}", vc.label(), cname, k, if *retry { ", the write was retried successfully" } else { "" }, why);
                        let rj = J::obj().set("argv", J::arr_of_str(vec!["c05fault".to_string()])).set("variant", J::s(crate::modes::sessmode::variant_name())).set("volume", vc.json()).set("case", J::s(*cname)).set("k", J::u(k)).set("detail", J::s(d.clone()));
                        rep.viol("C05", &format!("C05|cluster-leak-after-failed-transfer|{}", cname), "cluster-leak-after-failed-transfer", &d, rj);
                    }
                    Ok(Err(e)) => {
                        if rep.inconclusive.len() < 3 {
                            rep.inconclusive.push(format!("c05 fault variant setup: {}", e));
                        }
                    }
                    Err(_) => {
                        let (cls, full) = take_panic();
                        if !cls.contains("BUDGET") {
                            let d = format!("write with a failing payload transfer panicked: {}", full);
                            rep.viol("C05", &format!("C05|panic-after-fault|{}", cls), "panic", &d, J::obj().set("argv", J::arr_of_str(vec!["c05fault"])).set("detail", J::s(d.clone())));
                        }
                    }
                }
            }
        }
    }
}
