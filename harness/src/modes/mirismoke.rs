//! Tiny workload for `cargo +nightly miri run` (an independent interpreter's view of overflow / bounds / UB in the
//! crate and its dependencies on the decoding paths). Informational: sized for an interpreter that is ~10^4 times slower.
#![allow(dead_code)]

use crate::dev::Image;
use crate::modes::c07::try_mount;
use crate::modes::c17::{good_run, iterate, lfn_slot, sfn_slot, IterRes};
use crate::modes::Report;
use crate::util::{Rng, J};
use crate::vol::{make_volume, VolCfg};
use crate::Args;

pub fn run(args: &Args, rep: &mut Report) {
    let seed = args.u64("seed", 1);
    let n = args.u64("n", 12);
    let vc = VolCfg { fat: 12, bps: 512, spc: 1, nfats: 1, root_entries: 16, clusters: 8, extra: 0, garbage: false, slack: 0, used_device: false };
    let (img, _) = make_volume(&vc).expect("tiny volume");
    let g = crate::fatck::geo_of(&img).unwrap();
    let mut rng = Rng::new(seed);
    // boot sector mutations
    for i in 0..n {
        let mut m: Image = img.clone();
        let off = 11 + rng.below(40);
        m.set_u8(off, rng.below(256) as u8);
        if i % 3 == 0 {
            m.set_u32(32, rng.next_u32());
        }
        let o = try_mount(&m, i % 2 == 0, false);
        rep.evaluations += 1;
        rep.count(&format!("outcome:interp-mount:{}", o.ek.name()), 1);
        if matches!(o.ek, crate::model::EK::Panic | crate::model::EK::Budget) {
            rep.viol("C07", "C07|interp|mount-not-total", "mount-not-total", &o.detail, J::obj().set("argv", J::arr_of_str(vec!["mirismoke"])));
        }
    }
    // crafted directory slots
    let sfn = *b"SMOKE   TXT";
    for i in 0..n {
        let mut slots = Vec::new();
        match i % 4 {
            0 => slots.extend(good_run(&"a long name for the interpreter".encode_utf16().collect::<Vec<u16>>(), &sfn, 0x20)),
            1 => {
                slots.push(lfn_slot(0x43, 7, &[0x5A; 13]));
                slots.extend(good_run(&[0x61], &sfn, 0x20));
            }
            2 => {
                let mut s = [0u8; 32];
                rng.fill(&mut s);
                s[0] |= 1;
                slots.push(s);
                slots.push(sfn_slot(&sfn, 0x10));
            }
            _ => {
                slots.push(lfn_slot(rng.below(256) as u8 | 1, rng.below(256) as u8, &[0xFFFF; 13]));
                slots.push(sfn_slot(b"\x05ODD    BIN", 0x27));
            }
        }
        let mut m = img.clone();
        let mut bytes = Vec::new();
        for s in &slots {
            bytes.extend_from_slice(s);
        }
        m.write(g.root_off(), &bytes);
        rep.evaluations += 1;
        if let IterRes::Panic(cls, full, _) = iterate(&m, false) {
            rep.viol("C17", &format!("C17|interp|{}", cls), "decode-not-total", &full, J::obj().set("argv", J::arr_of_str(vec!["mirismoke"])));
        }
    }
    rep.distinct.insert(1);
    rep.distinct.insert(2);
    rep.sample(J::s("boot sector byte mutations + crafted long-name slot streams on an 8-cluster FAT12 volume"));
}
