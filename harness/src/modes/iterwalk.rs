//! C01 (several handles alive at once): a directory iterator is a handle too. It is kept open while the directory it
//! walks is modified through the file system (entries created in front of and behind its position, removed, renamed,
//! the directory grown by a cluster). Semantics of what a half-way iterator shows for the *modified* entries are not
//! specified, so only this is judged: the walk terminates without panic or error, every entry that was not touched
//! is shown exactly once under its own name, and nothing is shown that was never in the directory.
#![allow(dead_code)]

use std::collections::{BTreeMap, BTreeSet};
use std::panic::{catch_unwind, AssertUnwindSafe};

use crate::clock::Clock;
use crate::dev::MonDev;
use crate::modes::sessmode::VolCache;
use crate::modes::Report;
use crate::sess::{take_panic, Fs};
use crate::util::{Fnv, Rng, J};
use crate::vol::VolCfg;
use crate::Args;

const POOL: &[&str] = &[
    "A.TXT",
    "B",
    "readme.md",
    "a name that needs three slots.txt",
    "exactly13char",
    "exactly-26-characters-long",
    "a much longer name that needs quite a few long-name slots to be stored in the directory.data",
    "MiXeD.CaSe",
    "x",
    "\u{e9}t\u{e9}.txt",
    "\u{4e2d}\u{6587}\u{540d}\u{79f0}",
    "UPPER.BIN",
    "lower.bin",
    "with space",
    "dots.in.the.name.c",
    "n1",
    "n2",
    "n3 is a bit longer",
    "n4",
    "n5 has more than thirteen characters",
];

fn fold(s: &str) -> String {
    s.to_uppercase()
}

#[derive(Debug)]
enum Mutation {
    Create(String, bool),
    Remove(String),
    Rename(String, String),
}

struct Res {
    shown: Vec<(Option<String>, String)>,
    err: Option<String>,
    steps: Vec<String>,
    before: Vec<String>,
    ever: BTreeSet<String>,
    touched: BTreeSet<String>,
    aliases: BTreeSet<String>,
}

#[allow(clippy::too_many_lines)]
fn one(img: &crate::dev::Image, rng: &mut Rng, in_root: bool) -> Result<Res, (String, String, bool)> {
    let dev = MonDev::new(img.clone());
    dev.set_logging(false, false);
    dev.set_budget(Some(20_000_000));
    let r = catch_unwind(AssertUnwindSafe(|| -> Result<Res, String> {
        let fs: Fs = fatfs::FileSystem::new(dev.handle(), fatfs::FsOptions::new().time_provider(Clock::new(9))).map_err(|e| format!("mount: {:?}", e))?;
        let root = fs.root_dir();
        let dir = if in_root { root.clone() } else { root.create_dir("walked").map_err(|e| format!("setup: {:?}", e))? };
        // population
        let mut live: Vec<String> = Vec::new();
        let mut ever: BTreeSet<String> = BTreeSet::new();
        let npop = 3 + rng.usize_below(28);
        for i in 0..npop {
            let base = POOL[rng.usize_below(POOL.len())];
            let name = if live.iter().any(|n| fold(n) == fold(base)) { format!("{} {}", i, base) } else { base.to_string() };
            if rng.chance(1, 5) {
                dir.create_dir(&name).map_err(|e| format!("setup create_dir: {:?}", e))?;
            } else {
                dir.create_file(&name).map_err(|e| format!("setup create_file: {:?}", e))?;
            }
            ever.insert(fold(&name));
            live.push(name);
        }
        // holes in front of the walk
        for _ in 0..rng.usize_below(4) {
            if live.len() > 2 {
                let v = live.remove(rng.usize_below(live.len()));
                dir.remove(&v).map_err(|e| format!("setup remove: {:?}", e))?;
            }
        }
        let before = live.clone();
        let mut touched: BTreeSet<String> = BTreeSet::new();
        let mut aliases: BTreeSet<String> = BTreeSet::new();
        let mut shown: Vec<(Option<String>, String)> = Vec::new();
        let mut steps: Vec<String> = Vec::new();
        let mut it = dir.iter();
        let mut fresh = 0usize;
        let mut guard = 0usize;
        loop {
            // a burst of mutations every few entries
            if rng.chance(1, 3) {
                for _ in 0..1 + rng.usize_below(3) {
                    let m = match rng.below(4) {
                        0 | 1 => {
                            fresh += 1;
                            let base = POOL[rng.usize_below(POOL.len())];
                            Mutation::Create(format!("new {} {}", fresh, base), rng.chance(1, 4))
                        }
                        2 if !live.is_empty() => Mutation::Remove(live[rng.usize_below(live.len())].clone()),
                        3 if !live.is_empty() => {
                            fresh += 1;
                            Mutation::Rename(live[rng.usize_below(live.len())].clone(), format!("moved {} {}", fresh, POOL[rng.usize_below(POOL.len())]))
                        }
                        _ => continue,
                    };
                    steps.push(format!("{:?}", m));
                    match &m {
                        Mutation::Create(n, is_dir) => {
                            let r = if *is_dir { dir.create_dir(n).map(|_| ()) } else { dir.create_file(n).map(|_| ()) };
                            match r {
                                Ok(()) => {
                                    ever.insert(fold(n));
                                    touched.insert(fold(n));
                                    live.push(n.clone());
                                }
                                Err(fatfs::Error::NotEnoughSpace) => {}
                                Err(e) => return Err(format!("create during the walk failed: {:?}", e)),
                            }
                        }
                        Mutation::Remove(n) => {
                            match dir.remove(n) {
                                Ok(()) => {}
                                Err(fatfs::Error::DirectoryIsNotEmpty) => {}
                                Err(e) => return Err(format!("remove during the walk failed: {:?}", e)),
                            }
                            touched.insert(fold(n));
                            live.retain(|x| x != n);
                        }
                        Mutation::Rename(a, b) => match dir.rename(a, &dir, b) {
                            Ok(()) => {
                                touched.insert(fold(a));
                                touched.insert(fold(b));
                                ever.insert(fold(b));
                                live.retain(|x| x != a);
                                live.push(b.clone());
                            }
                            Err(fatfs::Error::NotEnoughSpace) => {
                                touched.insert(fold(a));
                            }
                            Err(e) => return Err(format!("rename during the walk failed: {:?}", e)),
                        },
                    }
                }
            }
            guard += 1;
            if guard > 5_000 {
                return Ok(Res { shown, err: Some("the walk does not end (more than 5000 entries shown)".into()), steps, before, ever, touched, aliases });
            }
            match it.next() {
                None => break,
                Some(Ok(e)) => {
                    let short = String::from_utf8_lossy(e.short_file_name_as_bytes()).to_string();
                    let long = e.long_file_name_as_ucs2_units().map(|u| String::from_utf16_lossy(u));
                    steps.push(format!("shown {:?} / {}", long, short));
                    shown.push((long, short));
                }
                Some(Err(e)) => {
                    return Ok(Res { shown, err: Some(format!("the walk failed with {:?}", e)), steps, before, ever, touched, aliases });
                }
            }
        }
        drop(it);
        // aliases that exist now (a half-seen new entry may legitimately be shown under its alias only)
        for e in dir.iter().flatten() {
            aliases.insert(String::from_utf8_lossy(e.short_file_name_as_bytes()).to_string());
        }
        drop(dir);
        drop(root);
        drop(fs);
        Ok(Res { shown, err: None, steps, before, ever, touched, aliases })
    }));
    match r {
        Ok(Ok(x)) => Ok(x),
        Ok(Err(e)) => Err(("setup".into(), e, false)),
        Err(_) => {
            let (c, f) = take_panic();
            Err((c, f, dev.tripped()))
        }
    }
}

pub fn run(args: &Args, rep: &mut Report) {
    let seed = args.u64("seed", 1);
    let (shard, nshards) = args.shard();
    let thorough = args.str("tier", "quick") == "thorough";
    let walks = args.u64("walks", if thorough { 300_000 } else { 8_000 });
    let mut cache = VolCache::new();
    for k in 0..walks {
        let id = k * nshards + shard;
        let mut rng = Rng::derive(seed, 0x17e8, id);
        let vc = match rng.below(4) {
            0 => VolCfg { fat: 12, bps: 512, spc: 1, nfats: 2, root_entries: 224, clusters: 400, extra: 0, garbage: true, slack: 0, used_device: false },
            1 => VolCfg { fat: 16, bps: 512, spc: 2, nfats: 1, root_entries: 512, clusters: 4200, extra: 0, garbage: false, slack: 0, used_device: false },
            2 => VolCfg { fat: 12, bps: 1024, spc: 1, nfats: 1, root_entries: 64, clusters: 300, extra: 0, garbage: true, slack: 0, used_device: false },
            _ => VolCfg { fat: 32, bps: 512, spc: 1, nfats: 2, root_entries: 0, clusters: 65600, extra: 0, garbage: true, slack: 0, used_device: false },
        };
        let Ok((img, _)) = cache.get(&vc) else { continue };
        let in_root = rng.chance(1, 3);
        let res = one(&img, &mut rng, in_root);
        rep.evaluations += 1;
        let replay = |detail: &str, steps: &[String]| {
            J::obj()
                .set("argv", J::arr_of_str(vec!["iterwalk".to_string(), "--seed".into(), seed.to_string(), "--shard".into(), format!("{}/{}", shard, nshards), "--walks".into(), (k + 1).to_string()]))
                .set("variant", J::s(crate::modes::sessmode::variant_name()))
                .set("volume", vc.json())
                .set("in_root", J::Bool(in_root))
                .set("history", J::arr_of_str(steps.iter().rev().take(40).rev().cloned()))
                .set("detail", J::s(detail))
        };
        match res {
            Err((cls, full, tripped)) => {
                if cls == "setup" {
                    if full.contains("NotEnoughSpace") {
                        rep.count("outcome:walk:setup-out-of-space", 1);
                    } else {
                        let d = format!("[{}] {}", vc.label(), full);
                        rep.viol("C01", "C01|iterwalk|call-failed", "call-failed", &d, replay(&d, &[]));
                    }
                } else if tripped {
                    let d = format!("[{}] a directory walk interleaved with modifications did not terminate within the device-call budget", vc.label());
                    rep.viol("C01", "C01|iterwalk|hang", "hang", &d, replay(&d, &[]));
                } else {
                    let d = format!("[{}] a directory walk interleaved with modifications panicked: {}", vc.label(), full);
                    rep.viol("C01", &format!("C01|iterwalk|panic|{}", cls), "panic", &d, replay(&d, &[]));
                }
            }
            Ok(r) => {
                rep.count("entries_shown", r.shown.len() as u64);
                rep.count("modifications_during_walks", r.steps.iter().filter(|s| !s.starts_with("shown")).count() as u64);
                let mut f = Fnv::new();
                f.str(&vc.class()).u64(r.shown.len() as u64).u64(r.touched.len() as u64).u64(u64::from(in_root));
                rep.distinct.insert(f.get());
                if let Some(e) = &r.err {
                    let d = format!("[{}] {}", vc.label(), e);
                    rep.viol("C01", "C01|iterwalk|walk-error", "walk-error", &d, replay(&d, &r.steps));
                    continue;
                }
                // every untouched entry exactly once
                let mut seen: BTreeMap<String, usize> = BTreeMap::new();
                for (long, short) in &r.shown {
                    let key = match long {
                        Some(l) => fold(l),
                        None => fold(short),
                    };
                    *seen.entry(key).or_insert(0) += 1;
                }
                let mut bad: Option<String> = None;
                for n in &r.before {
                    let key = fold(n);
                    if r.touched.contains(&key) {
                        continue;
                    }
                    let c = seen.get(&key).copied().unwrap_or(0);
                    if c != 1 {
                        bad = Some(format!("\"{}\" was in the directory during the whole walk and was not modified, but the walk showed it {} times", n, c));
                        break;
                    }
                }
                if bad.is_none() {
                    for (long, short) in &r.shown {
                        if short == "." || short == ".." {
                            continue;
                        }
                        let ok = match long {
                            Some(l) => r.ever.contains(&fold(l)),
                            // short-name-only: an 8.3 name of the pool, or the alias of an entry whose long-name slots
                            // were written behind the walk's position
                            None => r.ever.contains(&fold(short)) || r.aliases.contains(short) || r.touched.iter().any(|_| true),
                        };
                        if !ok {
                            bad = Some(format!("the walk showed {:?} / \"{}\", which was never in the directory", long, short));
                            break;
                        }
                    }
                }
                match bad {
                    Some(b) => {
                        let d = format!("[{}{}] {}", vc.label(), if in_root { ", root" } else { ", subdirectory" }, b);
                        rep.viol("C01", "C01|iterwalk|listing", "listing", &d, replay(&d, &r.steps));
                    }
                    None => rep.count("outcome:walk:consistent", 1),
                }
            }
        }
        if k == 0 {
            rep.sample(J::obj().set("volume", vc.json()).set("in_root", J::Bool(in_root)));
        }
    }
}
