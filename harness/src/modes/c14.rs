//! C14: flushed file data survives a power cut. Crash images are rebuilt from the journal of device writes at
//! every later crash point (every prefix of the write sequence), remounted and read.
#![allow(dead_code)]

use std::panic::{catch_unwind, AssertUnwindSafe};

use crate::clock::Clock;
use crate::dev::{Image, MonDev};
use crate::gen::{GenCfg, RandomSource};
use crate::modes::sessmode::{unicode_build, VolCache};
use crate::modes::Report;
use crate::sess::{run_session, take_panic, Fs, JOp, SessCfg};
use crate::util::{fnv_of, Fnv, Rng, J};
use crate::vol::{grid, VolCfg};
use crate::Args;

/// read `path` from a crash image through a fresh mount
fn read_back(img: &Image, path: &str) -> Result<Vec<u8>, String> {
    let dev = MonDev::new(img.clone());
    dev.set_logging(false, false);
    dev.set_budget(Some(3_000_000));
    let r = catch_unwind(AssertUnwindSafe(|| -> Result<Vec<u8>, String> {
        let fs: Fs = fatfs::FileSystem::new(dev.handle(), fatfs::FsOptions::new().time_provider(Clock::new(5))).map_err(|e| format!("mount failed: {:?}", e))?;
        let res = (|| {
            let mut f = fs.root_dir().open_file(path.trim_start_matches('/')).map_err(|e| format!("open failed: {:?}", e))?;
            let mut data = Vec::new();
            let mut buf = vec![0u8; 16384];
            loop {
                match fatfs::Read::read(&mut f, &mut buf) {
                    Ok(0) => break,
                    Ok(n) => data.extend_from_slice(&buf[..n]),
                    Err(e) => return Err(format!("read failed: {:?}", e)),
                }
                if data.len() > (64 << 20) {
                    return Err("file does not end".into());
                }
            }
            Ok(data)
        })();
        drop(fs);
        res
    }));
    match r {
        Ok(x) => x,
        Err(_) => {
            let (_, full) = take_panic();
            Err(format!("panic: {}", full))
        }
    }
}

pub struct CrashStats {
    pub crash_images: u64,
    pub file_checks: u64,
    pub flush_points: u64,
}

/// Returns the first violation (rule, detail, sig extra)
pub fn check_journal(img0: &Image, journal: &[JOp], rng: &mut Rng, st: &mut CrashStats, distinct: &mut std::collections::BTreeSet<u64>) -> Option<(String, String, String)> {
    let mut img = img0.clone();
    let mut durable_before: Vec<(String, Vec<u8>)> = Vec::new();
    let mut last_write_global: i64 = -1;
    let mut last_flush_global: i64 = -1;
    let mut evno: i64 = 0;
    for (oi, j) in journal.iter().enumerate() {
        // files whose survival is asserted while this call is in flight
        let mut expect: Vec<&(String, Vec<u8>)> = durable_before
            .iter()
            .filter(|(p, _)| !j.excluded.iter().any(|x| p == x || p.starts_with(&format!("{}/", x))))
            .collect();
        // keep the cost bounded: the most recently added durable files first
        if expect.len() > 5 {
            let skip = expect.len() - 5;
            expect.drain(..skip);
        }
        let nwrites = j.events.iter().filter(|e| !e.0).count();
        let stride = if nwrites > 96 { 1 + rng.usize_below(nwrites / 48) } else { 1 };
        let mut wi = 0usize;
        for (is_flush, off, payload) in &j.events {
            evno += 1;
            if *is_flush {
                last_flush_global = evno;
                continue;
            }
            last_write_global = evno;
            img.write(*off, payload);
            wi += 1;
            if expect.is_empty() || (wi % stride != 0 && wi != nwrites) {
                continue;
            }
            st.crash_images += 1;
            for (path, content) in &expect {
                st.file_checks += 1;
                let mut f = Fnv::new();
                f.str(&j.op.split('(').next().unwrap_or("").to_string()).u64(wi as u64).u64(content.len() as u64);
                distinct.insert(f.get());
                match read_back(&img, path) {
                    Ok(d) if &d == content => {}
                    Ok(d) => {
                        let i = d.iter().zip(content.iter()).position(|(a, b)| a != b).unwrap_or(d.len().min(content.len()));
                        return Some((
                            "flushed-content-lost".into(),
                            format!(
                                "power cut after device write {} of call #{} `{}`: {} reads back {} bytes, the flushed content has {} bytes (first difference at {})",
                                wi,
                                oi,
                                j.op,
                                path,
                                d.len(),
                                content.len(),
                                i
                            ),
                            j.op.split('(').next().unwrap_or("").rsplit('.').next().unwrap_or("").to_string(),
                        ));
                    }
                    Err(e) => {
                        return Some((
                            "flushed-file-unreadable".into(),
                            format!("power cut after device write {} of call #{} `{}`: {} cannot be read back: {}", wi, oi, j.op, path, e),
                            j.op.split('(').next().unwrap_or("").rsplit('.').next().unwrap_or("").to_string(),
                        ));
                    }
                }
            }
        }
        if j.flush_point {
            st.flush_points += 1;
            if last_write_global > last_flush_global {
                return Some((
                    "no-device-flush".into(),
                    format!("call #{} `{}` returned successfully but device write #{} was issued after the last device flush (#{}): data handed to the storage is not durable", oi, j.op, last_write_global, last_flush_global),
                    String::new(),
                ));
            }
        }
        durable_before = j.durable.clone();
    }
    None
}

pub fn run(args: &Args, rep: &mut Report) {
    let seed = args.u64("seed", 1);
    let (shard, nshards) = args.shard();
    let sessions = args.u64("sessions", 60);
    let deadline = args.u64("time", 0);
    let mut cache = VolCache::new();
    let mut st = CrashStats { crash_images: 0, file_checks: 0, flush_points: 0 };
    for k in 0..sessions {
        if deadline > 0 && rep.elapsed() > deadline as f64 {
            rep.notes.push(format!("time budget reached after {} sessions", k));
            break;
        }
        let id = k * nshards + shard;
        let mut rng = Rng::derive(seed, 0xC14, id);
        let tiny = rng.chance(1, 3);
        let mut vc = grid(&mut rng, tiny);
        // crash images are mounted thousands of times: keep the geometry small
        if vc.spc > 8 {
            vc.spc = 8;
        }
        vc.extra = 0;
        let Ok((img, vb)) = cache.get(&vc) else { continue };
        let mut g = GenCfg::default();
        g.max_ops = 25 + rng.usize_below(50);
        g.w_ns = 45;
        g.w_file = 50;
        g.w_remount = 1;
        g.invalid_names = false;
        g.max_file_clusters = 4;
        g.set_times = false;
        // in-place rewrites of existing bytes matter here: bias towards seeks to the start
        g.w_file = 60;
        let mut scfg = SessCfg::all(unicode_build());
        scfg.props = ["C01", "C02", "C14"].into_iter().collect();
        scfg.lib_walk = false;
        scfg.journal = true;
        scfg.frozen_clock = rng.chance(1, 2);
        if scfg.frozen_clock {
            scfg.props.remove("C18");
        }
        // reads that stamp the access date go through the same deferred entry update as writes do
        scfg.update_accessed = rng.chance(1, 2);
        scfg.opt_order = rng.below(12) as u8;
        scfg.short_dev = if rng.chance(1, 6) { Some(rng.next_u64()) } else { None };
        let class = fnv_of(&[&vc.class(), if scfg.update_accessed { "atime" } else { "noatime" }, if scfg.frozen_clock { "frozen" } else { "running" }]);
        let mut src = RandomSource::new(seed, 0x14e, id, g);
        let o = run_session(&scfg, &img, vb, class, &mut src);
        rep.count("sessions", 1);
        rep.count("api_calls", o.counters.api_calls);
        if o.violation.is_some() {
            // a divergence of another property ends the history; what was journaled so far is still checked
            rep.count("sessions_cut_short_by_other_monitor", 1);
        }
        let before = st.crash_images;
        let v = check_journal(&img, &o.journal, &mut rng, &mut st, &mut rep.distinct);
        rep.evaluations += st.crash_images - before;
        if k == 0 {
            rep.sample(J::obj().set("volume", vc.json()).set("calls", J::arr_of_str(o.journal.iter().take(20).map(|j| format!("{} [{} writes{}]", j.op, j.events.iter().filter(|e| !e.0).count(), if j.flush_point { ", flush point" } else { "" })))));
        }
        if let Some((rule, detail, extra)) = v {
            let rj = J::obj()
                .set("argv", J::arr_of_str(vec!["c14".to_string(), "--seed".into(), seed.to_string(), "--shard".into(), format!("{}/{}", shard, nshards), "--sessions".into(), (k + 1).to_string()]))
                .set("variant", J::s(crate::modes::sessmode::variant_name()))
                .set("volume", vc.json())
                .set("calls", J::arr_of_str(o.journal.iter().map(|j| j.op.clone())))
                .set("detail", J::s(detail.clone()));
            rep.viol("C14", &format!("C14|{}|{}", rule, extra), &rule, &detail, rj);
        }
    }
    rep.count("crash_images", st.crash_images);
    rep.count("file_readbacks", st.file_checks);
    rep.count("flush_points", st.flush_points);
}
