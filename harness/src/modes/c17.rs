//! C17: directory decoding is total on arbitrary slot contents; broken runs fall back to the short name.
#![allow(dead_code)]

use std::panic::{catch_unwind, AssertUnwindSafe};

use crate::clock::Clock;
use crate::dev::{Image, MonDev};
use crate::fatck::{self, decode_slots, sfn_checksum};
use crate::model::EK;
use crate::modes::Report;
use crate::sess::{take_panic, Fs};
use crate::util::{hex, Fnv, Rng, J};
use crate::vol::{make_volume, VolCfg};
use crate::Args;

pub type Slot = [u8; 32];

pub fn lfn_slot(ord: u8, chk: u8, units: &[u16; 13]) -> Slot {
    let mut s = [0u8; 32];
    s[0] = ord;
    let pos = [1usize, 3, 5, 7, 9, 14, 16, 18, 20, 22, 24, 28, 30];
    for (k, p) in pos.iter().enumerate() {
        s[*p..*p + 2].copy_from_slice(&units[k].to_le_bytes());
    }
    s[11] = 0x0F;
    s[13] = chk;
    s
}

pub fn sfn_slot(name: &[u8; 11], attr: u8) -> Slot {
    let mut s = [0u8; 32];
    s[..11].copy_from_slice(name);
    s[11] = attr;
    s[16] = 0x21; // 1980-01-01
    s[18] = 0x21;
    s[24] = 0x21;
    s
}

/// well-formed run for `name` followed by its short entry
pub fn good_run(name: &[u16], sfn: &[u8; 11], attr: u8) -> Vec<Slot> {
    let chk = sfn_checksum(sfn);
    let n = (name.len() + 12) / 13;
    let mut out = Vec::new();
    for i in (0..n).rev() {
        let mut units = [0xFFFFu16; 13];
        let part = &name[i * 13..name.len().min(i * 13 + 13)];
        units[..part.len()].copy_from_slice(part);
        if part.len() < 13 {
            units[part.len()] = 0;
        }
        let mut ord = (i + 1) as u8;
        if i == n - 1 {
            ord |= 0x40;
        }
        out.push(lfn_slot(ord, chk, &units));
    }
    out.push(sfn_slot(sfn, attr));
    out
}

#[derive(Clone, Debug, Default)]
pub struct Seen {
    pub long: Option<Vec<u16>>,
    pub short: Vec<u8>,
    pub attr: u8,
    pub len: u64,
}

pub struct Bases {
    pub root_img: Image,
    pub root_off: u64,
    pub root_slots: usize,
    pub sub_img: Image,
    pub sub_off: u64,
    pub sub_slots: usize,
}

pub fn bases() -> Bases {
    let vc = VolCfg { fat: 12, bps: 512, spc: 4, nfats: 1, root_entries: 64, clusters: 64, extra: 0, garbage: false, slack: 0, used_device: false };
    let (img, _) = make_volume(&vc).expect("template");
    let g = fatck::geo_of(&img).unwrap();
    // subdirectory variant: create "SUB" through the library once
    let dev = MonDev::new(img.clone());
    dev.set_logging(false, false);
    {
        let fs: Fs = fatfs::FileSystem::new(dev.handle(), fatfs::FsOptions::new().time_provider(Clock::new(1))).unwrap();
        fs.root_dir().create_dir("SUB").unwrap();
        fs.unmount().unwrap();
    }
    let sub_img = dev.snapshot();
    let dec = fatck::decode(&sub_img, &fatck::DecodeOpts::default()).unwrap();
    let sub_cluster = dec
        .root
        .nodes
        .iter()
        .find_map(|n| if let fatck::NodeKind::Dir(d) = &n.kind { Some(d.first_cluster) } else { None })
        .unwrap();
    Bases {
        root_off: g.root_off(),
        root_slots: g.root_entries as usize,
        root_img: img,
        sub_off: g.cluster_off(sub_cluster) + 64,
        sub_slots: (g.cluster_size / 32) as usize - 2,
        sub_img,
    }
}

pub enum IterRes {
    Ok(Vec<Seen>),
    Err(EK),
    Panic(String, String, bool),
}

/// iterate the directory through the crate and query every accessor
pub fn iterate(img: &Image, in_sub: bool) -> IterRes {
    let dev = MonDev::new(img.clone());
    dev.set_logging(false, false);
    dev.set_budget(Some(100_000));
    let r = catch_unwind(AssertUnwindSafe(|| {
        let fs: Fs = match fatfs::FileSystem::new(dev.handle(), fatfs::FsOptions::new().time_provider(Clock::new(1))) {
            Ok(f) => f,
            Err(e) => return Err(crate::model::classify_err(&e)),
        };
        let dir = if in_sub {
            match fs.root_dir().open_dir("SUB") {
                Ok(d) => d,
                Err(e) => return Err(crate::model::classify_err(&e)),
            }
        } else {
            fs.root_dir()
        };
        let mut out = Vec::new();
        for e in dir.iter() {
            let e = match e {
                Ok(e) => e,
                Err(e) => return Err(crate::model::classify_err(&e)),
            };
            let short = e.short_file_name_as_bytes().to_vec();
            let long = e.long_file_name_as_ucs2_units().map(|u| u.to_vec());
            let attr = e.attributes().bits();
            let len = e.len();
            let _ = (e.is_dir(), e.is_file());
            let c = e.created();
            let m = e.modified();
            let a = e.accessed();
            // touch every public field so that out-of-range values are really computed
            let _ = (c.date.year, c.date.month, c.date.day, c.time.hour, c.time.min, c.time.sec, c.time.millis);
            let _ = (m.date.year, m.time.sec, a.year, a.month, a.day);
            #[cfg(not(feature = "v_noalloc"))]
            {
                let n = e.file_name();
                let s = e.short_file_name();
                let _ = (n.len(), s.len());
                let _ = format!("{:?}", e);
            }
            if in_sub && (short == b"." || short == b"..") {
                continue;
            }
            out.push(Seen { long, short, attr, len });
        }
        drop(dir);
        drop(fs);
        Ok(out)
    }));
    match r {
        Ok(Ok(v)) => IterRes::Ok(v),
        Ok(Err(ek)) => IterRes::Err(ek),
        Err(_) => {
            let (c, f) = take_panic();
            IterRes::Panic(c, f, dev.tripped())
        }
    }
}

pub fn judge(rep: &mut Report, b: &Bases, slots: &[Slot], in_sub: bool, what: &str) {
    rep.evaluations += 1;
    let (mut img, off, cap) = if in_sub { (b.sub_img.clone(), b.sub_off, b.sub_slots) } else { (b.root_img.clone(), b.root_off, b.root_slots) };
    let slots = &slots[..slots.len().min(cap)];
    let mut bytes = Vec::with_capacity(slots.len() * 32);
    for s in slots {
        bytes.extend_from_slice(s);
    }
    img.write(off, &bytes);
    // independent state machine on exactly these slots (plus the zero slots that follow)
    let mut list: Vec<(u64, Slot)> = slots.iter().enumerate().map(|(i, s)| (off + i as u64 * 32, *s)).collect();
    if slots.len() < cap {
        list.push((off + slots.len() as u64 * 32, [0u8; 32]));
    }
    let mut diags = Vec::new();
    let (entries, _, _) = decode_slots(&list, !in_sub, "/", &mut diags);
    let expect: Vec<&fatck::DEntry> = entries.iter().filter(|e| !e.is_label()).collect();
    // Slots whose attribute byte has the four long-name bits set together with directory/archive bits are long-name
    // slots for a tolerant reader and garbage short entries by the letter of the specification: for streams that
    // contain one only totality and the length bound are asserted.
    let ambiguous = slots.iter().any(|s| s[0] != 0 && s[0] != 0xE5 && s[11] & 0x0F == 0x0F && s[11] & 0x30 != 0);
    let res = iterate(&img, in_sub);
    let mut f = Fnv::new();
    f.str(what.split(':').next().unwrap_or("")).u64(u64::from(in_sub));
    let replay = |detail: &str| {
        J::obj()
            .set("argv", J::arr_of_str(vec!["c17".to_string()]))
            .set("variant", J::s(crate::modes::sessmode::variant_name()))
            .set("where", J::s(if in_sub { "cluster-chain directory" } else { "fixed root directory" }))
            .set("case", J::s(what))
            .set("slots_hex", J::arr_of_str(slots.iter().map(|s| hex(s))))
            .set("detail", J::s(detail))
    };
    match res {
        IterRes::Panic(cls, full, tripped) => {
            let d = format!("iterating a directory with crafted slots ({}) {}: {}", what, if tripped { "exceeded the device-call budget" } else { "panicked" }, full);
            rep.viol("C17", &format!("C17|{}|{}", if tripped { "budget" } else { "panic" }, cls), "decode-not-total", &d, replay(&d));
            f.str("panic");
        }
        IterRes::Err(ek) => {
            // an error is a legitimate, total outcome; count it
            rep.count(&format!("outcome:iter:{}", ek.name()), 1);
            f.str(ek.name());
        }
        IterRes::Ok(seen) => {
            rep.count("outcome:iter:Ok", 1);
            f.u64(seen.len() as u64);
            for s in &seen {
                if let Some(l) = &s.long {
                    if l.len() > 255 {
                        let d = format!("{}: returned a long name of {} UTF-16 units (> 255)", what, l.len());
                        rep.viol("C17", "C17|name-too-long", "name-too-long", &d, replay(&d));
                    }
                }
            }
            if ambiguous {
                rep.count("ambiguous_streams", 1);
            } else if seen.len() != expect.len() {
                let d = format!("{}: the library lists {} entries, the independent decoder {}", what, seen.len(), expect.len());
                rep.viol("C17", "C17|entry-count", "entry-count", &d, replay(&d));
            } else {
                for (s, e) in seen.iter().zip(expect.iter()) {
                    f.u64(u64::from(s.long.is_some())).u64(u64::from(e.lfn_broken)).u64(u64::from(e.lfn_soft));
                    let soft = e.lfn_soft || e.lfn.as_ref().map_or(false, |n| n.iter().any(|u| *u == 0xFFFF || *u == 0) || n.is_empty());
                    if e.lfn_broken {
                        if let Some(l) = &s.long {
                            let d = format!(
                                "{}: entry {:?} follows a structurally broken long-name run but the library returns the long name \"{}\" ({} units) instead of falling back to the short name",
                                what,
                                String::from_utf8_lossy(&e.sfn),
                                crate::util::show_units(l),
                                l.len()
                            );
                            rep.viol("C17", "C17|broken-run-yields-name", "broken-run-yields-name", &d, replay(&d));
                        }
                    } else if let Some(n) = &e.lfn {
                        if !soft && s.long.as_deref() != Some(&n[..]) {
                            let d = format!(
                                "{}: well-formed run for \"{}\" but the library returns {:?}",
                                what,
                                crate::util::show_units(n),
                                s.long.as_ref().map(|l| crate::util::show_units(l))
                            );
                            rep.viol("C17", "C17|good-run-wrong-name", "good-run-wrong-name", &d, replay(&d));
                        }
                    } else if s.long.is_some() {
                        let d = format!("{}: plain short entry {:?} reported with a long name", what, String::from_utf8_lossy(&e.sfn));
                        rep.viol("C17", "C17|name-from-nowhere", "name-from-nowhere", &d, replay(&d));
                    }
                    if s.short != e.short_bytes() {
                        let d = format!("{}: short name {:?} vs raw {:?}", what, s.short, e.short_bytes());
                        rep.viol("C17", "C17|short-name", "short-name", &d, replay(&d));
                    }
                    if s.len != u64::from(e.size) || s.attr != e.attr & 0x3F {
                        let d = format!("{}: size/attributes {} / {:#x} vs raw {} / {:#x}", what, s.len, s.attr, e.size, e.attr);
                        rep.viol("C17", "C17|size-attr", "size-attr", &d, replay(&d));
                    }
                }
            }
        }
    }
    rep.distinct.insert(f.get());
}

fn fill_units(kind: u8, ch: u16) -> [u16; 13] {
    match kind {
        0 => {
            // ordinary part: 5 characters, terminator, padding
            let mut u = [0xFFFFu16; 13];
            for x in u.iter_mut().take(5) {
                *x = ch;
            }
            u[5] = 0;
            u
        }
        1 => [ch; 13],
        _ => [0xFFFF; 13],
    }
}

/// one random slot stream (valid runs, stray long-name slots, deleted slots, labels, garbage, odd short entries)
pub fn soup(rng: &mut Rng) -> Vec<Slot> {
    let sfn: [u8; 11] = *b"SHORTN~1TXT";
    let good = sfn_checksum(&sfn);
    let len = 2 + rng.usize_below(22);
    let mut slots: Vec<Slot> = Vec::new();
    while slots.len() < len {
        match rng.below(10) {
            0 => {
                let mut s = [0u8; 32];
                rng.fill(&mut s);
                if s[0] == 0 {
                    s[0] = 1;
                }
                slots.push(s);
            }
            1 | 2 => {
                // valid run with random name
                let l = 1 + rng.usize_below(30);
                let name: Vec<u16> = (0..l).map(|_| *rng.pick(&[0x61u16, 0x42, 0xe9, 0x4e2d, 0xD800, 0xDC00, 0x20, 0x2e, 0xFFFD])).collect();
                let mut s = sfn;
                s[0] = b'A' + rng.below(26) as u8;
                s[1] = b'0' + rng.below(10) as u8;
                slots.extend(good_run(&name, &s, *rng.pick(&[0x20u8, 0x10, 0x01, 0x27])));
            }
            3 | 4 => {
                let ord = *rng.pick(&[1u8, 2, 3, 0x41, 0x42, 0x43, 0x54, 0x60, 0x14, 0x15, 0x7f, 0xC1]);
                let chk = if rng.chance(1, 2) { good } else { rng.below(256) as u8 };
                slots.push(lfn_slot(ord, chk, &fill_units(rng.below(3) as u8, 0x58)));
            }
            5 => {
                let mut s = sfn_slot(&sfn, 0x20);
                s[0] = 0xE5;
                slots.push(s);
            }
            6 => slots.push(sfn_slot(b"LABEL      ", 0x08)),
            7 => {
                // out-of-range dates and times, odd attributes, 0x05 lead byte, lowercase flags
                let mut s = sfn_slot(&sfn, *rng.pick(&[0x20u8, 0x10, 0x3f & !0x08, 0x40, 0x80, 0xC0 | 0x20]));
                s[0] = *rng.pick(&[0x05u8, 0x41, 0x80, 0xFF, 0x20, 0x2e]);
                s[12] = rng.below(256) as u8;
                for k in 13..26 {
                    s[k] = *rng.pick(&[0u8, 0xFF, 0x21, 0xBF, 0x7D]);
                }
                rng.fill(&mut s[26..32]);
                slots.push(s);
            }
            _ => {
                let mut s = sfn;
                s[0] = b'A' + rng.below(26) as u8;
                s[2] = b'0' + rng.below(10) as u8;
                slots.push(sfn_slot(&s, 0x20));
            }
        }
    }
    slots
}

pub fn run(args: &Args, rep: &mut Report) {
    let seed = args.u64("seed", 1);
    let (shard, nshards) = args.shard();
    let thorough = args.str("tier", "quick") == "thorough";
    let b = bases();
    let mut rng = Rng::derive(seed, 0xC17, shard);
    let sfn: [u8; 11] = *b"SHORTN~1TXT";
    let good = sfn_checksum(&sfn);
    let mut n: u64 = 0;
    // ---- (a) all order / checksum / fill patterns for runs of up to 3 long-name slots
    let orders: [u8; 17] = [0x01, 0x02, 0x03, 0x14, 0x1F, 0x41, 0x42, 0x43, 0x44, 0x54, 0x55, 0x7F, 0xC2, 0x20, 0x40, 0x80, 0xA0];
    for nslots in 1..=3usize {
        let combos = orders.len().pow(nslots as u32);
        for oi in 0..combos {
            let mut ords = [0u8; 3];
            let mut x = oi;
            for o in ords.iter_mut().take(nslots) {
                *o = orders[x % orders.len()];
                x /= orders.len();
            }
            for chkmask in 0..(1u32 << nslots) {
                for fillsel in 0..3u32.pow(nslots as u32) {
                    n += 1;
                    if n % nshards != shard {
                        continue;
                    }
                    for follower in 0..5u8 {
                        let mut slots: Vec<Slot> = Vec::new();
                        let mut fs = fillsel;
                        for k in 0..nslots {
                            let chk = if chkmask & (1 << k) != 0 { good } else { good.wrapping_add(1 + k as u8) };
                            let units = fill_units((fs % 3) as u8, b'Z' as u16 - k as u16);
                            fs /= 3;
                            slots.push(lfn_slot(ords[k], chk, &units));
                        }
                        match follower {
                            0 => slots.push(sfn_slot(&sfn, 0x20)),
                            1 => {
                                let mut d = sfn_slot(&sfn, 0x20);
                                d[0] = 0xE5;
                                slots.push(d);
                                slots.push(sfn_slot(b"OTHER   BIN", 0x20));
                            }
                            2 => {
                                slots.push(sfn_slot(b"VOLLABEL   ", 0x08));
                                slots.push(sfn_slot(&sfn, 0x20));
                            }
                            3 => {
                                // another complete, valid run follows directly
                                let name: Vec<u16> = "second".encode_utf16().collect();
                                slots.extend(good_run(&name, &sfn, 0x10));
                            }
                            _ => {}
                        }
                        let what = format!("enum:{}slots ord={:02x?} chk={:#b} fill={} follower={}", nslots, &ords[..nslots], chkmask, fillsel, follower);
                        judge(rep, &b, &slots, (n / nshards) % 4 == 0, &what);
                    }
                }
            }
        }
    }
    // ---- (b) every value of every byte of one long-name slot and of the short slot of a base 2-slot run
    let base_name: Vec<u16> = "A long file name.ext".encode_utf16().collect();
    let base = good_run(&base_name, &sfn, 0x20);
    for si in 0..base.len() {
        for bi in 0..32usize {
            for v in 0..=255u8 {
                n += 1;
                if n % nshards != shard {
                    continue;
                }
                let mut slots = base.clone();
                if slots[si][bi] == v {
                    continue;
                }
                slots[si][bi] = v;
                let what = format!("bytes:slot{} byte{}={:#04x}", si, bi, v);
                judge(rep, &b, &slots, v % 5 == 0, &what);
            }
        }
    }
    // ---- (b2) a complete run followed by one more long-name slot with every possible order byte, then the short entry
    for nrun in 1..=3usize {
        let name: Vec<u16> = (0..nrun * 13 - 4).map(|i| 0x61 + (i % 26) as u16).collect();
        let run = good_run(&name, &sfn, 0x20);
        for ord in 0..=255u8 {
            for same_chk in [true, false] {
                n += 1;
                if n % nshards != shard {
                    continue;
                }
                let mut slots: Vec<Slot> = run[..run.len() - 1].to_vec();
                slots.push(lfn_slot(ord, if same_chk { good } else { good ^ 0x5A }, &fill_units(0, 0x51)));
                slots.push(run[run.len() - 1]);
                if ord == 0 || ord == 0xE5 {
                    continue;
                }
                judge(rep, &b, &slots, ord % 3 == 0, &format!("stray:{}-slot run + extra slot order {:#04x} chk-same={}", nrun, ord, same_chk));
            }
        }
    }
    // ---- (b3) a run of every length with one of its long-name slots released (0xE5): what is left of the run is
    // broken, the entry falls back to its short name (an interrupted remove / rename leaves exactly this)
    for nrun in 1..=20usize {
        let name: Vec<u16> = (0..nrun * 13 - 4).map(|i| 0x61 + (i % 26) as u16).collect();
        let run = good_run(&name, &sfn, 0x20);
        for del in 0..nrun {
            n += 1;
            if n % nshards != shard {
                continue;
            }
            let mut slots = run.clone();
            slots[del][0] = 0xE5;
            judge(rep, &b, &slots, (nrun + del) % 3 == 0, &format!("released:{}-slot run with long-name slot {} released", nrun, del));
            // ... and with everything in front of the released slot released as well
            let mut slots = run.clone();
            for s in slots.iter_mut().take(del + 1) {
                s[0] = 0xE5;
            }
            judge(rep, &b, &slots, (nrun + del) % 3 == 1, &format!("released:{}-slot run with long-name slots 0..={} released", nrun, del));
        }
    }
    // ---- (b4) short names whose OEM bytes happen to form multi-byte UTF-8 sequences at every position (also across the
    // base / extension border), behind a long-name run with a matching and with a foreign checksum
    for seq in [&[0xC3u8, 0x89][..], &[0xE4, 0xB8, 0xAD][..], &[0xF0, 0x9F, 0x98, 0x80][..]] {
        for pos in 0..=(11 - seq.len()) {
            for good_chk in [true, false] {
                n += 1;
                if n % nshards != shard {
                    continue;
                }
                let mut s2: [u8; 11] = *b"PROTEGE TXT";
                s2[pos..pos + seq.len()].copy_from_slice(seq);
                let name: Vec<u16> = "prot\u{e9}g\u{e9} name.txt".encode_utf16().collect();
                let mut slots = good_run(&name, &s2, 0x20);
                if !good_chk {
                    for sl in slots.iter_mut().take(2) {
                        sl[13] ^= 0x5A;
                    }
                }
                judge(rep, &b, &slots, pos % 2 == 0, &format!("utf8-in-sfn:{}-byte sequence at {} chk-good={}", seq.len(), pos, good_chk));
            }
        }
    }
    // ---- (c) maximal and over-long runs
    for units in [247usize, 248, 254, 255, 256, 259, 260, 261, 273, 390] {
        for fill in [0x61u16, 0x4e2d, 0xD800] {
            n += 1;
            if n % nshards != shard {
                continue;
            }
            let name: Vec<u16> = (0..units).map(|i| if fill == 0x61 { 0x61 + (i % 26) as u16 } else { fill }).collect();
            let mut slots = good_run(&name, &sfn, 0x20);
            // over-long names need order numbers above 20: patch them consistently
            let what = format!("long:{}units fill={:#x}", units, fill);
            judge(rep, &b, &slots, false, &what);
            // the same run without the 0x40 flag / with the flag on a middle slot
            let k = slots.len() / 2;
            slots[k][0] |= 0x40;
            judge(rep, &b, &slots, false, &format!("{} +restart-in-middle", what));
        }
    }
    // ---- (d) orphan run starts followed by complete runs (stale state must not leak into the next name)
    for orphan in [0x41u8, 0x42, 0x43, 0x4A, 0x54] {
        for good_len in [1usize, 5, 13, 14, 26, 27] {
            n += 1;
            if n % nshards != shard {
                continue;
            }
            let mut slots = vec![lfn_slot(orphan, good, &[b'Z' as u16; 13])];
            let name: Vec<u16> = (0..good_len).map(|i| 0x61 + (i % 26) as u16).collect();
            slots.extend(good_run(&name, &sfn, 0x20));
            judge(rep, &b, &slots, false, &format!("orphan:{:#x} then good run of {} units", orphan, good_len));
            // deleted in between
            let mut s2 = vec![lfn_slot(orphan, good, &[b'Q' as u16; 13])];
            let mut del = sfn_slot(b"DELETED    ", 0x20);
            del[0] = 0xE5;
            s2.push(del);
            s2.extend(good_run(&name, b"SECOND  TXT", 0x20));
            judge(rep, &b, &s2, true, &format!("orphan:{:#x}, deleted slot, good run of {} units", orphan, good_len));
        }
    }
    // ---- (e) random slot soup
    let soups = if thorough { 12_000_000 } else { 80_000 } / nshards;
    for i in 0..soups {
        let slots = soup(&mut rng);
        judge(rep, &b, &slots, i % 3 == 0, &format!("soup:{}", i));
    }
    rep.sample(J::s("enum:3slots ord=[43, 02, 01] chk=0b111 fill=0 follower=0 (well-formed 3-slot run)"));
    rep.sample(J::s("orphan:0x43 then good run of 1 units"));
    rep.sample(J::s("long:260units fill=0x61 (20 slots x 13 units)"));
}
