//! C09: storage errors surface as I/O errors - exhaustive single-fault enumeration over every device call
//! of every operation of representative histories, with a device-call budget against non-termination.
#![allow(dead_code)]

use std::panic::{catch_unwind, AssertUnwindSafe};

use crate::clock::Clock;
use crate::dev::{FaultPlan, Image, MonDev};
use crate::fatck;
use crate::model::{classify_err, Model, EK};
use crate::modes::Report;
use crate::ops::{DirRef, Op};
use crate::sess::{exec, take_panic, Fs, H};
use crate::util::{Fnv, Rng, J};
use crate::vol::{make_volume, VolCfg};
use crate::Args;

#[derive(Clone, Debug)]
pub enum Target {
    Op(Op),
    Mount,
    Unmount,
    DropFs,
    Format,
}

#[derive(Clone, Debug)]
pub struct Scenario {
    pub name: String,
    pub setup: Vec<Op>,
    /// raw edit of the image before the final mount: set the FS-info next-free hint `n` clusters before the end
    pub hint_from_end: Option<u32>,
    pub target: Target,
}

fn cf(path: &str, slot: usize) -> Op {
    Op::CreateFile { dir: DirRef::Root, path: path.into(), slot: Some(slot) }
}
fn cd(path: &str) -> Op {
    Op::CreateDir { dir: DirRef::Root, path: path.into(), slot: None }
}
fn wr(h: usize, len: usize) -> Op {
    Op::Write { h, len }
}

pub fn scenarios(cs: usize, fat: u8) -> Vec<Scenario> {
    // common populated state: directories, long names, two interleaved (fragmented) files
    let mut base: Vec<Op> = vec![
        cd("dir one with a long name"),
        cd("dir one with a long name/e"),
        cd("dir one with a long name/e/f"),
        cf("dir one with a long name/e/f/deep file name.txt", 0),
        wr(0, cs + 10),
        cf("first fragmented file.bin", 1),
        cf("second.bin", 2),
        wr(1, cs),
        wr(2, cs),
        wr(1, cs),
        wr(2, cs),
        wr(1, cs / 2 + 1),
        Op::Flush { h: 1 },
        Op::Close { h: 0 },
        Op::Close { h: 2 },
    ];
    // h1 stays open on "first fragmented file.bin" (3 clusters, fragmented), cursor at its end
    let mut v: Vec<Scenario> = Vec::new();
    let mut add = |name: &str, extra: Vec<Op>, target: Target, v: &mut Vec<Scenario>| {
        let mut s = base.clone();
        s.extend(extra);
        v.push(Scenario { name: name.to_string(), setup: s, hint_from_end: None, target });
    };
    add("mount", vec![], Target::Mount, &mut v);
    add("list-root", vec![], Target::Op(Op::List { dir: DirRef::Root }), &mut v);
    add("open-dir", vec![], Target::Op(Op::OpenDir { dir: DirRef::Root, path: "dir one with a long name/e/f".into(), slot: Some(3) }), &mut v);
    add("list-subdir", vec![Op::OpenDir { dir: DirRef::Root, path: "dir one with a long name/e".into(), slot: Some(3) }], Target::Op(Op::List { dir: DirRef::H(3) }), &mut v);
    add("open-file-deep", vec![], Target::Op(Op::OpenFile { dir: DirRef::Root, path: "dir one with a long name/e/f/deep file name.txt".into(), slot: Some(3) }), &mut v);
    add("open-missing", vec![], Target::Op(Op::OpenFile { dir: DirRef::Root, path: "dir one with a long name/e/nothing here".into(), slot: Some(3) }), &mut v);
    add("create-file-long-name", vec![], Target::Op(cf("dir one with a long name/a brand new file with a long name.dat", 3)), &mut v);
    add("create-file-root", vec![], Target::Op(cf("new.txt", 3)), &mut v);
    add("create-dir-long-name", vec![], Target::Op(cd("another directory, long name")), &mut v);
    add("create-dir-deep", vec![], Target::Op(cd("dir one with a long name/e/f/g")), &mut v);
    add("create-existing", vec![], Target::Op(cf("second.bin", 3)), &mut v);
    add("write-allocating", vec![Op::Seek { h: 1, whence: 2, off: 0 }, wr(1, cs - cs / 2 - 1)], Target::Op(wr(1, cs)), &mut v);
    add("write-first-cluster", vec![cf("empty.bin", 3)], Target::Op(wr(3, 100)), &mut v);
    add("write-overwrite", vec![Op::Seek { h: 1, whence: 0, off: (cs + 7) as i64 }], Target::Op(wr(1, 64)), &mut v);
    add("write-in-cluster", vec![], Target::Op(wr(1, 16)), &mut v);
    add("seek-across-chain", vec![Op::Seek { h: 1, whence: 0, off: 0 }], Target::Op(Op::Seek { h: 1, whence: 0, off: (2 * cs + 5) as i64 }), &mut v);
    add("seek-back", vec![], Target::Op(Op::Seek { h: 1, whence: 0, off: (cs + 1) as i64 }), &mut v);
    add("read-start", vec![Op::Seek { h: 1, whence: 0, off: 0 }], Target::Op(Op::Read { h: 1, len: 100 }), &mut v);
    add("read-at-boundary", vec![Op::Seek { h: 1, whence: 0, off: cs as i64 }], Target::Op(Op::Read { h: 1, len: cs }), &mut v);
    add("extents-fragmented", vec![], Target::Op(Op::Extents { h: 1 }), &mut v);
    add("extents-after-seek-to-start", vec![Op::Seek { h: 1, whence: 0, off: 0 }], Target::Op(Op::Extents { h: 1 }), &mut v);
    add("truncate-mid-chain", vec![Op::Seek { h: 1, whence: 0, off: (cs / 2) as i64 }], Target::Op(Op::Truncate { h: 1 }), &mut v);
    add("truncate-to-zero", vec![Op::Seek { h: 1, whence: 0, off: 0 }], Target::Op(Op::Truncate { h: 1 }), &mut v);
    add("truncate-at-boundary", vec![Op::Seek { h: 1, whence: 0, off: cs as i64 }], Target::Op(Op::Truncate { h: 1 }), &mut v);
    add("flush-dirty", vec![wr(1, 10)], Target::Op(Op::Flush { h: 1 }), &mut v);
    add("flush-clean", vec![], Target::Op(Op::Flush { h: 1 }), &mut v);
    add("close-dirty(drop)", vec![wr(1, 10)], Target::Op(Op::Close { h: 1 }), &mut v);
    add("remove-multi-cluster", vec![], Target::Op(Op::Remove { dir: DirRef::Root, path: "second.bin".into() }), &mut v);
    add("remove-deep", vec![], Target::Op(Op::Remove { dir: DirRef::Root, path: "dir one with a long name/e/f/deep file name.txt".into() }), &mut v);
    add("remove-empty-dir", vec![cd("empty dir")], Target::Op(Op::Remove { dir: DirRef::Root, path: "empty dir".into() }), &mut v);
    add("remove-nonempty-dir", vec![], Target::Op(Op::Remove { dir: DirRef::Root, path: "dir one with a long name".into() }), &mut v);
    add("rename-same-dir", vec![], Target::Op(Op::Rename { sdir: DirRef::Root, src: "second.bin".into(), ddir: DirRef::Root, dst: "second with a new and longer name.bin".into() }), &mut v);
    add(
        "move-file",
        vec![],
        Target::Op(Op::Rename { sdir: DirRef::Root, src: "second.bin".into(), ddir: DirRef::Root, dst: "dir one with a long name/e/moved.bin".into() }),
        &mut v,
    );
    add(
        "move-dir",
        vec![cd("target")],
        Target::Op(Op::Rename { sdir: DirRef::Root, src: "dir one with a long name/e".into(), ddir: DirRef::Root, dst: "target/e moved".into() }),
        &mut v,
    );
    add("stats-first", vec![], Target::Op(Op::Stats), &mut v);
    add("stats-second", vec![Op::Stats], Target::Op(Op::Stats), &mut v);
    add("status-flags", vec![], Target::Op(Op::StatusFlags), &mut v);
    add("label", vec![], Target::Op(Op::Label), &mut v);
    add("unmount", vec![Op::Close { h: 1 }, Op::Stats], Target::Unmount, &mut v);
    add("unmount-after-alloc", vec![wr(1, cs), Op::Close { h: 1 }], Target::Unmount, &mut v);
    add("drop-fs(exempt)", vec![wr(1, cs), Op::Close { h: 1 }], Target::DropFs, &mut v);
    // a directory that spans several clusters (16 slots per 512-byte cluster; long names take 3-4 slots each)
    let mut big: Vec<Op> = vec![cd("big")];
    for i in 0..14 {
        big.push(Op::CreateFile { dir: DirRef::Root, path: format!("big/entry number {:02} with a long name.dat", i), slot: None });
    }
    add("list-multi-cluster-dir", { let mut b = big.clone(); b.push(Op::OpenDir { dir: DirRef::Root, path: "big".into(), slot: Some(3) }); b }, Target::Op(Op::List { dir: DirRef::H(3) }), &mut v);
    add("open-last-in-multi-cluster-dir", big.clone(), Target::Op(Op::OpenFile { dir: DirRef::Root, path: "big/entry number 13 with a long name.dat".into(), slot: Some(3) }), &mut v);
    add("create-in-multi-cluster-dir", big.clone(), Target::Op(cf("big/one more entry with a long name that needs a new cluster maybe.dat", 3)), &mut v);
    add("remove-in-multi-cluster-dir", big.clone(), Target::Op(Op::Remove { dir: DirRef::Root, path: "big/entry number 12 with a long name.dat".into() }), &mut v);
    add("rename-into-multi-cluster-dir", big.clone(), Target::Op(Op::Rename { sdir: DirRef::Root, src: "second.bin".into(), ddir: DirRef::Root, dst: "big/second moved here with a long name.bin".into() }), &mut v);
    add("move-dir-out-of-multi-cluster-dir", { let mut b = big.clone(); b.push(cd("big/inner dir")); b }, Target::Op(Op::Rename { sdir: DirRef::Root, src: "big/inner dir".into(), ddir: DirRef::Root, dst: "inner dir at top".into() }), &mut v);
    add("read-across-cluster-boundary", vec![Op::Seek { h: 1, whence: 0, off: (cs - 10) as i64 }, Op::Read { h: 1, len: 10 }], Target::Op(Op::Read { h: 1, len: 40 }), &mut v);
    add("write-across-cluster-boundary", vec![Op::Seek { h: 1, whence: 0, off: (cs - 10) as i64 }, wr(1, 10)], Target::Op(wr(1, 40)), &mut v);
    add("open-through-dotdot", vec![], Target::Op(Op::OpenFile { dir: DirRef::Root, path: "dir one with a long name/e/../e/f/deep file name.txt".into(), slot: Some(3) }), &mut v);
    add("create-through-dir-handle", vec![Op::OpenDir { dir: DirRef::Root, path: "dir one with a long name/e".into(), slot: Some(3) }], Target::Op(Op::CreateFile { dir: DirRef::H(3), path: "f/created through a handle.txt".into(), slot: Some(4) }), &mut v);
    add("set-times-flush", vec![Op::SetTimes { h: 1, which: 0, date: 0x5021, time: 0x6000, tenth: 7 }], Target::Op(Op::Flush { h: 1 }), &mut v);
    add("close-dir-handle(drop)", vec![Op::OpenDir { dir: DirRef::Root, path: "dir one with a long name".into(), slot: Some(3) }, Op::CreateFile { dir: DirRef::H(3), path: "x.txt".into(), slot: None }], Target::Op(Op::Close { h: 3 }), &mut v);
    if fat != 32 {
        // a completely full fixed root: create_dir reserves a cluster, finds no room for the entry and has to give the
        // cluster back - device errors during that clean-up must surface as well
        let mut full: Vec<Op> = Vec::new();
        for i in 0..40 {
            full.push(Op::CreateFile { dir: DirRef::Root, path: format!("filler number {:02} with a long name.bin", i), slot: None });
        }
        for i in 0..16 {
            full.push(Op::CreateFile { dir: DirRef::Root, path: format!("F{}", i), slot: None });
        }
        v.push(Scenario { name: "create-dir-in-full-root".into(), setup: full.clone(), hint_from_end: None, target: Target::Op(cd("no room for this directory")) });
        v.push(Scenario { name: "create-file-in-full-root".into(), setup: full.clone(), hint_from_end: None, target: Target::Op(cf("no room for this file either.txt", 3)) });
        v.push(Scenario { name: "rename-in-full-root".into(), setup: full, hint_from_end: None, target: Target::Op(Op::Rename { sdir: DirRef::Root, src: "F1".into(), ddir: DirRef::Root, dst: "a longer name that does not fit.txt".into() }) });
    }
    v.push(Scenario { name: "format".into(), setup: vec![], hint_from_end: None, target: Target::Format });
    if fat == 32 {
        // allocation scan that starts from a hint near the end and has to wrap around
        let mut s = base.clone();
        s.push(Op::Seek { h: 1, whence: 2, off: 0 });
        s.push(wr(1, cs - cs / 2 - 1));
        v.push(Scenario { name: "write-allocating-hint-near-end".into(), setup: s.clone(), hint_from_end: Some(3), target: Target::Op(wr(1, cs)) });
        let mut s2 = base.clone();
        s2.push(cd("placeholder"));
        v.push(Scenario { name: "create-dir-hint-near-end".into(), setup: s2, hint_from_end: Some(2), target: Target::Op(cd("wrapped")) });
    }
    base.clear();
    v
}

pub struct RunRes {
    pub calls: u64,
    pub ek: EK,
    pub io_code: Option<u32>,
    pub fired: Option<crate::dev::FaultFired>,
    pub tripped: bool,
    pub panic: Option<(String, String)>,
    pub drop_panic: Option<(String, String)>,
    pub drop_tripped: bool,
}

thread_local! {
    /// mount options of the scenario runs: bit 0 = strict(false), bit 1 = update_accessed_date(true)
    static OPTS: std::cell::Cell<u8> = const { std::cell::Cell::new(0) };
}

fn opts_name(o: u8) -> &'static str {
    match o & 3 {
        0 => "default",
        1 => "nonstrict",
        2 => "atime",
        _ => "nonstrict+atime",
    }
}

fn mk(dev: &MonDev, clock: &Clock) -> Result<Fs, fatfs::Error<crate::dev::DevError>> {
    dev.set_pos(0);
    let o = OPTS.with(|c| c.get());
    fatfs::FileSystem::new(dev.handle(), fatfs::FsOptions::new().time_provider(clock.clone()).strict(o & 1 == 0).update_accessed_date(o & 2 != 0))
}

/// run the scenario from `img`; `fault`: (k, kinds mask)
pub fn run_scenario(img: &Image, sc: &Scenario, vc: &VolCfg, fault: Option<(u64, u8)>, budget: u64) -> RunRes {
    let mut res = RunRes { calls: 0, ek: EK::Ok, io_code: None, fired: None, tripped: false, panic: None, drop_panic: None, drop_tripped: false };
    let dev = MonDev::new(img.clone());
    dev.set_logging(false, false);
    let clock = Clock::new(77);
    let model = Model::new(true, 8);
    let arm = |dev: &MonDev| {
        dev.begin_call();
        dev.set_budget(Some(budget));
        if let Some((k, kinds)) = fault {
            dev.set_fault(Some(FaultPlan { k, kinds, code: 0xF000 + (k as u32 & 0xFFF) }));
        }
    };
    // ---- format is a stand-alone target
    if let Target::Format = sc.target {
        let total = vc.total_sectors();
        let blank = Image::new(u64::from(total) * u64::from(vc.bps));
        let dev = MonDev::new(blank);
        dev.set_logging(false, false);
        arm(&dev);
        let mut d = dev.handle();
        let opts = fatfs::FormatVolumeOptions::new().bytes_per_sector(vc.bps).bytes_per_cluster(u32::from(vc.bps) * u32::from(vc.spc)).fats(vc.nfats).max_root_dir_entries(vc.root_entries).total_sectors(total).volume_label(*b"FAULT TEST ");
        let r = catch_unwind(AssertUnwindSafe(|| fatfs::format_volume(&mut d, opts)));
        res.calls = dev.calls();
        res.fired = dev.fired();
        res.tripped = dev.tripped();
        match r {
            Ok(Ok(())) => {}
            Ok(Err(e)) => {
                res.ek = classify_err(&e);
                if let fatfs::Error::Io(d) = e {
                    res.io_code = Some(d.code);
                }
            }
            Err(_) => res.panic = Some(take_panic()),
        }
        return res;
    }
    // ---- setup (fault free)
    let setup_ok = catch_unwind(AssertUnwindSafe(|| -> Result<(), String> {
        let fs = mk(&dev, &clock).map_err(|e| format!("setup mount: {:?}", e))?;
        let mut hs: Vec<Option<H<'_>>> = (0..8).map(|_| None).collect();
        // phase 1: everything up to the point where the raw hint edit / remount happens
        for (i, op) in sc.setup.iter().enumerate() {
            let o = exec(&fs, &mut hs, op, i as u64 + 1, &model);
            if let Some(ek) = o.ek {
                // the fill-up scenarios run into the full directory on purpose
                if ek == EK::NotEnoughSpace && sc.name.ends_with("-full-root") {
                    continue;
                }
                return Err(format!("setup op {} failed: {}", op.show(), ek.name()));
            }
        }
        // keep state alive for the target: leak into the closure's caller through a second phase below
        match &sc.target {
            Target::Mount => {
                drop(hs);
                fs.unmount().map_err(|e| format!("setup unmount: {:?}", e))?;
                arm(&dev);
                let r = catch_unwind(AssertUnwindSafe(|| mk(&dev, &clock)));
                res.calls = dev.calls();
                res.fired = dev.fired();
                res.tripped = dev.tripped();
                match r {
                    Ok(Ok(fs2)) => {
                        dev.set_fault(None);
                        dev.set_budget(Some(budget));
                        dev.begin_call();
                        if catch_unwind(AssertUnwindSafe(move || drop(fs2))).is_err() {
                            res.drop_panic = Some(take_panic());
                        }
                    }
                    Ok(Err(e)) => {
                        res.ek = classify_err(&e);
                        if let fatfs::Error::Io(d) = e {
                            res.io_code = Some(d.code);
                        }
                    }
                    Err(_) => res.panic = Some(take_panic()),
                }
                Ok(())
            }
            Target::Unmount | Target::DropFs => {
                drop(hs);
                arm(&dev);
                let is_unmount = matches!(sc.target, Target::Unmount);
                let r = catch_unwind(AssertUnwindSafe(move || {
                    if is_unmount {
                        fs.unmount()
                    } else {
                        drop(fs);
                        Ok(())
                    }
                }));
                res.calls = dev.calls();
                res.fired = dev.fired();
                res.tripped = dev.tripped();
                match r {
                    Ok(Ok(())) => {}
                    Ok(Err(e)) => {
                        res.ek = classify_err(&e);
                        if let fatfs::Error::Io(d) = e {
                            res.io_code = Some(d.code);
                        }
                    }
                    Err(_) => res.panic = Some(take_panic()),
                }
                Ok(())
            }
            Target::Op(top) => {
                if let Some(n) = sc.hint_from_end {
                    // remount with a doctored FS-info hint; the open file is reopened and positioned at its end
                    drop(hs);
                    fs.unmount().map_err(|e| format!("setup unmount: {:?}", e))?;
                    dev.with_img_mut(|im| {
                        if let Ok(g) = fatck::geo_of(im) {
                            let o = g.fsinfo_sector * g.bps;
                            let last = g.max_cluster() as u32;
                            // occupy the tail so that the scan from the hint finds nothing
                            for c in (last + 1 - n)..=last {
                                for copy in 0..g.nfats {
                                    im.set_u32(g.fat_off(copy) + u64::from(c) * 4, 0x0FFF_FFF7);
                                }
                            }
                            im.set_u32(o + 492, last + 1 - n);
                            let cnt = im.u32(o + 488);
                            if cnt != 0xFFFF_FFFF {
                                im.set_u32(o + 488, cnt - n);
                            }
                        }
                    });
                    let fs2 = mk(&dev, &clock).map_err(|e| format!("setup remount: {:?}", e))?;
                    let mut hs2: Vec<Option<H<'_>>> = (0..8).map(|_| None).collect();
                    let o = exec(&fs2, &mut hs2, &Op::OpenFile { dir: DirRef::Root, path: "first fragmented file.bin".into(), slot: Some(1) }, 900, &model);
                    if o.ek.is_some() {
                        return Err("setup reopen failed".into());
                    }
                    let _ = exec(&fs2, &mut hs2, &Op::Seek { h: 1, whence: 2, off: 0 }, 901, &model);
                    target_and_drop(&dev, &fs2, hs2, top, &model, &arm, budget, &mut res);
                    dev.begin_call();
                    dev.set_budget(Some(budget));
                    if catch_unwind(AssertUnwindSafe(move || drop(fs2))).is_err() {
                        res.drop_panic = Some(take_panic());
                    }
                    res.drop_tripped |= dev.tripped();
                } else {
                    target_and_drop(&dev, &fs, hs, top, &model, &arm, budget, &mut res);
                    dev.begin_call();
                    dev.set_budget(Some(budget));
                    if catch_unwind(AssertUnwindSafe(move || drop(fs))).is_err() {
                        res.drop_panic = Some(take_panic());
                    }
                    res.drop_tripped |= dev.tripped();
                }
                Ok(())
            }
            Target::Format => Ok(()),
        }
    }));
    match setup_ok {
        Ok(Ok(())) => {}
        Ok(Err(e)) => {
            res.ek = EK::Other;
            res.panic = Some(("setup".into(), e));
        }
        Err(_) => {
            res.panic = Some(take_panic());
        }
    }
    res
}

#[allow(clippy::too_many_arguments)]
fn target_and_drop<'f>(dev: &MonDev, fs: &'f Fs, mut hs: Vec<Option<H<'f>>>, top: &Op, model: &Model, arm: &dyn Fn(&MonDev), budget: u64, res: &mut RunRes) {
    arm(dev);
    let r = catch_unwind(AssertUnwindSafe(|| exec(fs, &mut hs, top, 1000, model)));
    res.calls = dev.calls();
    res.fired = dev.fired();
    res.tripped = dev.tripped();
    match r {
        Ok(o) => {
            res.ek = o.ek.unwrap_or(EK::Ok);
            res.io_code = o.io_code;
        }
        Err(_) => res.panic = Some(take_panic()),
    }
    // destructors after the faulting call: must terminate without panicking
    dev.set_fault(None);
    dev.begin_call();
    dev.set_budget(Some(budget));
    if catch_unwind(AssertUnwindSafe(move || drop(hs))).is_err() {
        res.drop_panic = Some(take_panic());
    }
    res.drop_tripped = dev.tripped();
}

pub fn run(args: &Args, rep: &mut Report) {
    let seed = args.u64("seed", 1);
    let (shard, nshards) = args.shard();
    let thorough = args.str("tier", "quick") == "thorough";
    let mut rng = Rng::derive(seed, 0xC09, shard);
    let mut job: u64 = 0;
    let cfgs = [
        VolCfg { fat: 12, bps: 512, spc: 1, nfats: 2, root_entries: 32, clusters: 120, extra: 0, garbage: false, slack: 0, used_device: false },
        VolCfg { fat: 16, bps: 512, spc: 2, nfats: 2, root_entries: 64, clusters: 4200, extra: 0, garbage: false, slack: 0, used_device: false },
        VolCfg { fat: 32, bps: 512, spc: 1, nfats: 2, root_entries: 0, clusters: 65600, extra: 0, garbage: false, slack: 0, used_device: false },
        VolCfg { fat: 12, bps: 1024, spc: 4, nfats: 1, root_entries: 32, clusters: 300, extra: 0, garbage: false, slack: 0, used_device: false },
    ];
    for vc in cfgs.iter() {
        let Ok((img, _)) = make_volume(vc) else {
            rep.inconclusive.push(format!("volume {} not formattable", vc.label()));
            continue;
        };
        let cs = usize::from(vc.bps) * usize::from(vc.spc);
        for sc in scenarios(cs, vc.fat) {
            job += 1;
            if job % nshards != shard {
                continue;
            }
            // mount options: mount/unmount targets under every combination, the others under the default and one
            // rotating alternative (all four in the thorough tier)
            let whole = matches!(sc.target, Target::Mount | Target::Unmount | Target::DropFs | Target::Format);
            let opt_sets: Vec<u8> = if matches!(sc.target, Target::Format) {
                vec![0]
            } else if whole || thorough {
                vec![0, 1, 2, 3]
            } else {
                vec![0, 1 + ((job + seed) % 3) as u8]
            };
            let mut n_default = 0u64;
            for opt in opt_sets {
                OPTS.with(|c| c.set(opt));
                // fault-free run: number of device calls of the target
                let clean = run_scenario(&img, &sc, vc, None, 50_000_000);
                if clean.panic.is_some() || clean.ek != EK::Ok && !matches!(clean.ek, EK::NotFound | EK::DirectoryIsNotEmpty | EK::NotEnoughSpace) {
                    rep.inconclusive.push(format!("{} / {}: fault-free run failed: {:?} {:?}", vc.label(), sc.name, clean.ek, clean.panic));
                    continue;
                }
                let n = clean.calls;
                if opt == 0 {
                    n_default = n;
                }
                if opt == 0 {
                        rep.count(&format!("calls:{}:{}", vc.fat, sc.name), n);
                    }
                    rep.count(&format!("options:{}", opts_name(opt)), 1);
                let budget = (n * 20).max(n + 5000);
                let kind_sets: Vec<u8> = if thorough { vec![0xF, 1, 2, 4, 8] } else { vec![0xF] };
                for kinds in kind_sets {
                    let mut k = 1u64;
                    loop {
                        if k > n + 2 {
                            break;
                        }
                        let r = run_scenario(&img, &sc, vc, Some((k, kinds)), budget);
                        let Some(fired) = r.fired.clone() else {
                            // fewer matching calls than k: enumeration complete for this kind set
                            if r.tripped || r.panic.is_some() {
                                // cannot happen without a fault unless the budget is wrong
                                rep.inconclusive.push(format!("{} / {}: k={} no fault fired but {:?}", vc.label(), sc.name, k, r.panic));
                            }
                            break;
                        };
                        rep.evaluations += 1;
                        let mut f = Fnv::new();
                        f.str(&vc.class()).str(&sc.name).u64(k).u64(u64::from(kinds)).u64(u64::from(opt));
                        rep.distinct.insert(f.get());
                        let what = format!("{} on {} mounted with {} options: fault at device call {} of {} ({} at offset {}, kinds mask {:#x})", sc.name, vc.label(), opts_name(opt), k, n, fired.kind.name(), fired.off, kinds);
                        let rj = |detail: &str| {
                            J::obj()
                                .set("argv", J::arr_of_str(vec!["c09".to_string(), "--only-scenario".into(), sc.name.clone(), "--only-k".into(), k.to_string()]))
                                .set("variant", J::s(crate::modes::sessmode::variant_name()))
                                .set("scenario", J::s(sc.name.clone()))
                                .set("volume", vc.json())
                                .set("k", J::u(k))
                                .set("kinds", J::u(u64::from(kinds)))
                                .set("mount_options", J::s(opts_name(opt)))
                                .set("setup", crate::ops::ops_json(&sc.setup))
                                .set("target", J::s(format!("{:?}", sc.target)))
                                .set("detail", J::s(detail))
                        };
                        let where_ = format!("{}-{}", sc.name.split('(').next().unwrap_or(""), fired.kind.name());
                        if let Some((cls, full)) = &r.panic {
                            if r.tripped {
                                let d = format!("{}: the call did not terminate within {} device calls (fault-free: {})", what, budget, n);
                                rep.viol("C09", &format!("C09|hang|{}", where_), "hang", &d, rj(&d));
                                rep.count("outcome:fault:HANG", 1);
                            } else {
                                let d = format!("{}: the call panicked: {}", what, full);
                                rep.viol("C09", &format!("C09|panic|{}|{}", where_, cls), "panic", &d, rj(&d));
                                rep.count("outcome:fault:PANIC", 1);
                            }
                        } else if fired.in_drop {
                            rep.count("outcome:fault:exempt-destructor", 1);
                        } else if r.ek == EK::Io && r.io_code == Some(0xF000 + (k as u32 & 0xFFF)) {
                            rep.count("outcome:fault:Io(surfaced)", 1);
                        } else if r.ek == EK::Ok {
                            let d = format!("{}: the public call returned Ok - the storage error was swallowed", what);
                            rep.viol("C09", &format!("C09|swallowed|{}", where_), "swallowed", &d, rj(&d));
                            rep.count("outcome:fault:SWALLOWED", 1);
                        } else {
                            let d = format!("{}: the public call returned {} (io code {:?}) instead of the storage's error", what, r.ek.name(), r.io_code);
                            rep.viol("C09", &format!("C09|masked|{}|{}", where_, r.ek.name()), "masked", &d, rj(&d));
                            rep.count("outcome:fault:MASKED", 1);
                        }
                        if let Some((cls, full)) = &r.drop_panic {
                            let d = format!("{}: destructors after the failed call panicked: {}", what, full);
                            rep.viol("C09", &format!("C09|drop-panic|{}", cls), "drop-panic", &d, rj(&d));
                        }
                        if r.drop_tripped {
                            let d = format!("{}: destructors after the failed call did not terminate within the budget", what);
                            rep.viol("C09", &format!("C09|drop-hang|{}", where_), "drop-hang", &d, rj(&d));
                        }
                        k += 1;
                    }
                }
            }
            OPTS.with(|c| c.set(0));
            if rep.samples.len() < 5 {
                rep.sample(J::obj().set("scenario", J::s(sc.name.clone())).set("volume", vc.json()).set("device_calls", J::u(n_default)).set("target", J::s(format!("{:?}", sc.target))));
            }
        }
    }
    // ---- random histories: one fault at a random device call of a random operation, reference model up to there
    let sessions = args.u64("rand-sessions", if thorough { 300_000 } else { 16_000 }) / nshards;
    let mut cache = crate::modes::sessmode::VolCache::new();
    for k in 0..sessions {
        let id = k * nshards + shard;
        let mut r = Rng::derive(seed, 0xC09A, id);
        let tiny = r.chance(1, 3);
        let vc = crate::vol::grid(&mut r, tiny);
        let Ok((img, vb)) = cache.get(&vc) else { continue };
        let mut g = crate::gen::GenCfg::default();
        g.max_ops = 40;
        g.invalid_names = false;
        let mut scfg = crate::sess::SessCfg::all(crate::modes::sessmode::unicode_build());
        scfg.props = ["C01", "C09"].into_iter().collect();
        scfg.lib_walk = false;
        scfg.opt_order = r.below(12) as u8;
        scfg.update_accessed = r.chance(1, 3);
        let at = r.usize_below(35);
        let kk = 1 + match r.below(3) {
            0 => r.below(6),
            1 => r.below(40),
            _ => r.below(400),
        };
        let kinds = *r.pick(&[0xFu8, 0xF, 1, 2, 4, 8]);
        scfg.fault = Some((at, kk, kinds));
        let mut src = crate::gen::RandomSource::new(seed, 0x9a, id, g);
        let o = crate::sess::run_session(&scfg, &img, vb, 0, &mut src);
        if o.counters.faults_fired > 0 {
            rep.evaluations += 1;
            rep.count("outcome:random-history-fault:fired", 1);
            rep.count("outcome:random-history-fault:exempt-destructor", o.counters.faults_exempt);
            let mut f = Fnv::new();
            f.str(&vc.class()).str(o.history.last().map_or("", |x| x.kind())).u64(kk).u64(u64::from(kinds));
            rep.distinct.insert(f.get());
        }
        if let Some(v) = o.violation {
            if v.prop == "C09" {
                let d = format!("[random history on {}] {}", vc.label(), v.detail);
                let rj = J::obj()
                    .set("argv", J::arr_of_str(vec!["c09".to_string(), "--seed".into(), seed.to_string()]))
                    .set("variant", J::s(crate::modes::sessmode::variant_name()))
                    .set("volume", vc.json())
                    .set("history", crate::ops::ops_json(&o.history))
                    .set("fault", J::s(format!("op #{} device call #{} kinds {:#x}", at, kk, kinds)))
                    .set("detail", J::s(d.clone()));
                rep.viol("C09", &format!("C09|{}|rand", v.sig.splitn(2, '|').nth(1).unwrap_or("")), &v.rule, &d, rj);
            }
        }
    }
    let _ = rng.next_u64();
}
