//! Random monitored sessions over the configuration grid (C01-C05, C10-C12, C16, C18 rules).
#![allow(dead_code)]

use std::collections::{BTreeSet, HashMap};

use crate::dev::Image;
use crate::gen::{GenCfg, RandomSource};
use crate::modes::Report;
use crate::ops::{ops_json, Op};
use crate::sess::{run_session, Outcome, SessCfg, VecSource};
use crate::util::{fnv_of, Rng, J};
use crate::vol::{grid, make_volume, VolCfg};
use crate::Args;

pub fn unicode_build() -> bool {
    !cfg!(feature = "v_nouni")
}

pub struct VolCache {
    map: HashMap<VolCfg, Result<(Image, u64), String>>,
}

impl VolCache {
    pub fn new() -> Self {
        VolCache { map: HashMap::new() }
    }
    pub fn get(&mut self, c: &VolCfg) -> Result<(Image, u64), String> {
        if let Some(r) = self.map.get(c) {
            return r.clone();
        }
        let r = make_volume(c);
        self.map.insert(c.clone(), r.clone());
        r
    }
}

pub fn parse_props(a: &Args) -> BTreeSet<&'static str> {
    let all = ["C01", "C02", "C03", "C04", "C05", "C10", "C11", "C12", "C16", "C18"];
    let want = a.str("props", "C01,C02,C03,C04,C05,C10,C11,C12,C16,C18");
    all.into_iter().filter(|p| want.split(',').any(|w| w == *p)).collect()
}

/// Delta-debugging minimiser: keep the violation signature, drop as many ops as possible.
pub fn shrink(scfg: &SessCfg, img: &Image, vol_bytes: u64, class: u64, hist: &[Op], sig: &str, max_runs: usize) -> (Vec<Op>, Option<crate::sess::Violation>, usize) {
    let mut cur: Vec<Op> = hist.to_vec();
    let mut runs = 0usize;
    let mut best_v = None;
    let mut chunk = (cur.len() / 2).max(1);
    while chunk >= 1 && runs < max_runs {
        let mut i = 0;
        let mut progress = false;
        while i < cur.len() && runs < max_runs {
            let end = (i + chunk).min(cur.len());
            let mut cand: Vec<Op> = cur[..i].to_vec();
            cand.extend_from_slice(&cur[end..]);
            runs += 1;
            let mut src = VecSource::new(cand.clone());
            let o = run_session(scfg, img, vol_bytes, class, &mut src);
            if o.violation.as_ref().map_or(false, |v| v.sig == sig) {
                cur = cand;
                best_v = o.violation;
                progress = true;
            } else {
                i = end;
            }
        }
        if chunk == 1 && !progress {
            break;
        }
        chunk = if progress { chunk } else { chunk / 2 };
        if chunk == 0 {
            break;
        }
    }
    (cur, best_v, runs)
}

pub fn replay_json(mode: &str, args: &Args, session: u64, vc: &VolCfg, hist: &[Op], shrunk: &[Op], detail: &str) -> J {
    let mut argv: Vec<String> = vec![mode.to_string()];
    let mut keys: Vec<&String> = args.kv.keys().collect();
    keys.sort();
    for k in keys {
        if k == "out" || k == "distinct-out" || k == "only" {
            continue;
        }
        argv.push(format!("--{}", k));
        argv.push(args.kv[k].clone());
    }
    argv.push("--only".into());
    argv.push(session.to_string());
    J::obj()
        .set("argv", J::arr_of_str(argv))
        .set("variant", J::s(variant_name()))
        .set("volume", vc.json())
        .set("history_len", J::u(hist.len() as u64))
        .set("minimised_ops", ops_json(shrunk))
        .set("detail", J::s(detail))
}

pub fn variant_name() -> &'static str {
    if cfg!(feature = "v_noalloc") {
        "noalloc"
    } else if cfg!(feature = "v_nouni") {
        "nouni"
    } else {
        "full"
    }
}

pub fn profile_name() -> &'static str {
    if cfg!(debug_assertions) {
        "checked"
    } else {
        "relwrap"
    }
}

pub fn gen_profile(name: &str, rng: &mut Rng) -> (GenCfg, bool, Option<VolCfg>) {
    // returns (generator config, tiny volumes?, forced volume)
    let mut g = GenCfg::default();
    let mut tiny = false;
    let mut force = None;
    match name {
        "rootfill" => {
            // tiny fixed root directory filled with multi-slot names; creates/removes/renames only
            g.w_ns = 92;
            g.w_file = 4;
            g.w_query = 2;
            g.w_remount = 2;
            g.max_ops = 120 + rng.usize_below(200);
            g.max_nodes = 1000;
            g.root_only = rng.chance(3, 4);
            g.varied_lengths = true;
            g.dots = false;
            g.invalid_names = false;
            let fat = *rng.pick(&[12u8, 12, 16]);
            force = Some(VolCfg {
                fat,
                bps: 512,
                spc: *rng.pick(&[1u8, 1, 2]),
                nfats: 1 + rng.below(2) as u8,
                root_entries: *rng.pick(&[16u16, 16, 32, 24, 17]),
                clusters: if fat == 12 { rng.range(4, 30) as u32 } else { 4085 },
                extra: 0,
                garbage: rng.chance(1, 2),
                slack: 1, used_device: rng.chance(1, 2)
            });
        }
        "dirfill" => {
            // tiny volumes: cluster directories grow until the volume is full
            g.w_ns = 70;
            g.w_file = 26;
            g.w_query = 2;
            g.w_remount = 2;
            g.max_ops = 150 + rng.usize_below(250);
            g.max_nodes = 1000;
            g.varied_lengths = true;
            g.invalid_names = false;
            g.max_file_clusters = 3;
            let fat32 = rng.chance(1, 4);
            force = Some(VolCfg {
                fat: if fat32 { 32 } else { 12 },
                bps: 512,
                spc: if fat32 { 1 } else { *rng.pick(&[1u8, 2, 4]) },
                nfats: 1 + rng.below(2) as u8,
                root_entries: if fat32 { 0 } else { 512 },
                clusters: if fat32 { 65525 } else { rng.range(5, 24) as u32 },
                extra: if rng.chance(1, 2) { 4096 } else { 0 },
                garbage: rng.chance(1, 2),
                slack: 1 + rng.below(3) as u8, used_device: !fat32 && rng.chance(1, 2)
            });
        }
        "tree" => {
            g.w_ns = 80;
            g.w_file = 15;
            g.max_ops = 60 + rng.usize_below(120);
        }
        "file" => {
            g.w_ns = 18;
            g.w_file = 78;
            g.max_ops = 80 + rng.usize_below(150);
            g.max_file_clusters = 7;
        }
        "alloc" => {
            g.w_ns = 40;
            g.w_file = 55;
            g.max_ops = 100 + rng.usize_below(200);
            g.max_file_clusters = 12;
            g.stats_first = rng.chance(1, 2);
            g.w_query = 8;
            tiny = rng.chance(2, 3);
        }
        "remount" => {
            g.w_remount = 8;
            g.max_ops = 60 + rng.usize_below(100);
        }
        _ => {
            g.max_ops = 50 + rng.usize_below(200);
        }
    }
    (g, tiny, force)
}

pub fn run(args: &Args, rep: &mut Report) {
    let seed = args.u64("seed", 1);
    let (shard, nshards) = args.shard();
    let sessions = args.u64("sessions", 50);
    let only = args.get("only").and_then(|v| v.parse::<u64>().ok());
    let profile = args.str("profile", "mixed");
    let props = parse_props(args);
    let deadline = args.u64("time", 0);
    let mut cache = VolCache::new();
    let mut classes: BTreeSet<String> = BTreeSet::new();
    for k in 0..sessions {
        let id = k * nshards + shard;
        if let Some(o) = only {
            if o != id {
                continue;
            }
        }
        if deadline > 0 && rep.elapsed() > deadline as f64 && only.is_none() {
            rep.notes.push(format!("time budget reached after {} sessions", k));
            break;
        }
        let mut rng = Rng::derive(seed, 0x5e55, id);
        let (gcfg, tiny, force) = gen_profile(&profile, &mut rng);
        let fixed_fat = args.get("fat").and_then(|v| v.parse::<u8>().ok());
        let mut vc = grid(&mut rng, tiny);
        let force_copy = force.clone();
        if let Some(f) = force {
            vc = f;
        }
        if let Some(f) = fixed_fat {
            // redraw until the width matches (bounded)
            for _ in 0..64 {
                if vc.fat == f {
                    break;
                }
                vc = grid(&mut rng, tiny);
            }
        }
        let mut builder_label = None;
        let (img, vol_bytes) = if args.flag("builder") && rng.chance(3, 4) {
            // foreign volume from the spec-driven builder (3 FATs, mirroring off, high nibbles, residue, ...)
            let mut spec = crate::build::Spec::random(&mut rng);
            if let Some(f) = &force_copy {
                // fill workloads: a tiny foreign FAT12/FAT16 volume that really runs full
                if f.fat != 32 {
                    spec.fat = f.fat;
                    spec.clusters = if f.fat == 12 { f.clusters.max(24) + 16 } else { 4085 + rng.below(20) as u32 };
                    spec.bps = 512;
                    spec.spc = u32::from(f.spc);
                    spec.slack_sectors = if spec.spc > 1 { 1 } else { 0 };
                    spec.root_entries = 32;
                    spec.root_cluster = 0;
                    spec.reserved = 1 + rng.below(3) as u32;
                    spec.mirroring = true;
                    spec.active_fat = 0;
                    spec.fsinfo_sector = 0;
                    spec.backup_sector = 0;
                    spec.high_nibbles = false;
                    spec.max_depth = 1;
                    spec.max_entries = 2;
                    spec.extra_fat_sectors = 1 + rng.below(2) as u32;
                }
            }
            match crate::build::build(&spec, &mut rng) {
                Ok((img, t)) => {
                    builder_label = Some(spec.label());
                    vc.fat = spec.fat;
                    (img, t.vol_bytes)
                }
                Err(_) => {
                    rep.count("volume_config_rejected", 1);
                    continue;
                }
            }
        } else {
            match cache.get(&vc) {
                Ok(x) => x,
                Err(e) => {
                    rep.count("volume_config_rejected", 1);
                    if rep.notes.len() < 5 {
                        rep.notes.push(e);
                    }
                    continue;
                }
            }
        };
        let mut img = img;
        if builder_label.is_none() && vc.fat == 32 && rng.chance(1, 2) {
            // start allocating above cluster 0x10000 so that the high word of first-cluster fields is in play
            if let Ok(g) = crate::fatck::geo_of(&img) {
                if g.max_cluster() > 0x1_0010 {
                    // (one time in three right at / just below the boundary, so that objects start exactly on cluster 0x10000)
                    let hint = if rng.chance(1, 3) { 0x1_0000 - rng.below(4) as u32 } else { 0x1_0000 + rng.below(g.max_cluster() - 0x1_0000) as u32 };
                    img.set_u32(g.fsinfo_sector * g.bps + 492, hint);
                }
            }
        }
        if args.flag("statusbits") && rng.chance(1, 2) {
            // mount-time status byte presets (bits 0/1 known, others uninterpreted)
            if let Ok(g) = crate::fatck::geo_of(&img) {
                let v = *rng.pick(&[1u8, 2, 3, 0x80, 0x84, 0x41, 0xFE]);
                img.set_u8(g.status_off, v);
                // the status byte does not depend on the extended boot signature that follows it (0x28: only the
                // serial number is valid, 0x00: no extended fields at all)
                if rng.chance(1, 3) {
                    img.set_u8(g.status_off + 1, *rng.pick(&[0x28u8, 0x00, 0x29]));
                }
            }
        }
        if args.flag("statusbits") && rng.chance(1, 4) {
            // other systems record an unclean shutdown / a disk error in the second FAT entry (FAT16: bits 15/14,
            // FAT32: bits 27/26, 0 = dirty / error); the boot-sector byte still has to bracket this library's changes
            if let Ok(g) = crate::fatck::geo_of(&img) {
                if g.fat_bits != 12 {
                    let clear: u32 = *rng.pick(&[1u32, 2, 3]);
                    for c in 0..g.nfats {
                        let off = g.fat_off(c) + if g.fat_bits == 16 { 2 } else { 4 };
                        if g.fat_bits == 16 {
                            let v = img.u16(off) & !((clear as u16) << 14);
                            img.set_u16(off, v);
                        } else {
                            let v = img.u32(off) & !(clear << 26);
                            img.set_u32(off, v);
                        }
                    }
                }
            }
        }
        let mut scfg = SessCfg::all(unicode_build());
        scfg.props = props.clone();
        scfg.start_day = 30 + rng.below(40_000) as u32;
        scfg.update_accessed = args.flag("atime") && rng.chance(1, 2);
        // a storage object may transfer fewer bytes than asked for (Read/Write contract): one session in six, one in three
        // where the plan asks for it
        scfg.short_dev = if rng.chance(1, if args.flag("short") { 3 } else { 6 }) { Some(rng.next_u64()) } else { None };
        scfg.shadow_mount = args.flag("shadow");
        scfg.lib_walk = !args.flag("nolibwalk");
        scfg.opt_order = rng.below(12) as u8;
        // a clock that stands still (what NullTimeProvider gives): new stamps equal the stored ones, so nothing may
        // depend on a stamp having changed. The C18 stamping rules need distinguishable instants and are not judged then.
        if rng.chance(1, 8) {
            scfg.frozen_clock = true;
            scfg.props.remove("C18");
        }
        scfg.tolerate_baseline_diags = builder_label.is_some();
        let cls_name = builder_label.clone().map(|l| format!("builder:{}", l.split("-res").next().unwrap_or(""))).unwrap_or_else(|| vc.class());
        let class = fnv_of(&[&cls_name, if scfg.short_dev.is_some() { "short" } else { "full" }]);
        classes.insert(cls_name);
        let mut src = RandomSource::new(seed, 0x6e6, id, gcfg);
        let o: Outcome = run_session(&scfg, &img, vol_bytes, class, &mut src);
        rep.evaluations += o.counters.api_calls;
        rep.count("sessions", 1);
        rep.count("ops", o.ops_run as u64);
        rep.count("device_events", o.counters.dev_events);
        rep.count("device_writes_classified", o.counters.writes_classified);
        rep.count("raw_decodes", o.counters.decodes);
        rep.count("library_walks", o.counters.lib_walks);
        rep.count("shadow_mounts", o.counters.shadow_mounts);
        rep.count("mount_epochs", o.counters.epochs);
        rep.count("extents_checks", o.counters.extents_checks);
        rep.count("stats_checks", o.counters.stats_checks);
        rep.count("skipped_ops", o.counters.skipped_ops);
        for ((kind, ek), n) in &o.counters.op_outcomes {
            rep.count(&format!("outcome:{}:{}", kind, ek), *n);
        }
        for d in &o.distinct {
            rep.distinct.insert(*d);
        }
        if k < 3 || only.is_some() {
            rep.sample(
                J::obj()
                    .set("session", J::u(id))
                    .set("volume", vc.json())
                    .set("ops", J::Arr(o.history.iter().take(if only.is_some() { 400 } else { 25 }).map(|x| J::Str(x.show())).collect())),
            );
        }
        if let Some(v) = o.violation {
            let (small, v2, runs) = shrink(&scfg, &img, vol_bytes, class, &o.history[..(v.op_index + 1).min(o.history.len())], &v.sig, 250);
            rep.count("shrink_runs", runs as u64);
            let v = v2.unwrap_or(v);
            let mut rj = replay_json("sess", args, id, &vc, &o.history, &small, &v.detail);
            if let Some(l) = &builder_label {
                rj.put("volume", J::s(format!("builder image {}", l)));
            }
            rep.viol(v.prop, &v.sig, &v.rule, &v.detail, rj);
        }
    }
    rep.extra.push(("config_classes".into(), J::arr_of_str(classes.into_iter())));
}
