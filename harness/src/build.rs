//! Spec-driven foreign image builder: produces valid FAT volumes WITHOUT calling the crate, using the encoding
//! freedoms the specification allows and the crate's own writer never exercises. Returns the ground truth.
#![allow(dead_code)]

use crate::dev::Image;
use crate::fatck::sfn_checksum;
use crate::util::{Rng, J};

#[derive(Clone, Debug)]
pub struct Spec {
    pub fat: u8,
    pub bps: u32,
    pub spc: u32,
    pub nfats: u32,
    pub mirroring: bool,
    pub active_fat: u32,
    pub reserved: u32,
    pub root_entries: u32,
    pub clusters: u32,
    /// sectors after the last whole cluster (less than one cluster)
    pub slack_sectors: u32,
    /// extra FAT sectors beyond what the cluster count needs
    pub extra_fat_sectors: u32,
    pub root_cluster: u32,
    pub fsinfo_sector: u32,
    pub backup_sector: u32,
    pub status_byte: u8,
    /// 0 accurate, 1 unknown (0xFFFFFFFF), 2 out of range
    pub fsinfo_mode: u8,
    pub extra_bytes: u32,
    pub media: u8,
    pub high_nibbles: bool,
    pub eoc_variants: bool,
    pub fragmented: bool,
    pub padding_nonzero: bool,
    pub garbage_free_clusters: bool,
    pub label_in_root: bool,
    pub max_depth: u32,
    pub max_entries: u32,
    pub bad_clusters: u32,
    /// all but a few of the clusters left free by the generated tree are marked bad
    pub nearly_full: bool,
    /// hint written to FS-info (None = derived: first free / unknown)
    pub hint: Option<u32>,
}

impl Spec {
    pub fn label(&self) -> String {
        format!(
            "fat{}-bps{}-spc{}-f{}{}-res{}-re{}-cl{}-slack{}-st{:#x}-fi{}",
            self.fat,
            self.bps,
            self.spc,
            self.nfats,
            if self.mirroring { if self.active_fat == 0 { "m".to_string() } else { format!("m(stale{})", self.active_fat) } } else { format!("a{}", self.active_fat) },
            self.reserved,
            self.root_entries,
            self.clusters,
            self.slack_sectors,
            self.status_byte,
            self.fsinfo_mode
        )
    }
    pub fn class(&self) -> String {
        format!("fat{}-bps{}-spc{}-f{}{}", self.fat, self.bps, self.spc, self.nfats, if self.mirroring { "m" } else { "a" })
    }
    pub fn json(&self) -> J {
        J::s(self.label())
    }
    pub fn random(rng: &mut Rng) -> Spec {
        let fat = *rng.pick(&[12u8, 12, 16, 16, 32, 32]);
        let bps = *rng.pick(&[512u32, 512, 1024, 2048, 4096]);
        let spc = *rng.pick(&[1u32, 1, 2, 4, 8, 16, 64]);
        let nfats = *rng.pick(&[1u32, 2, 2, 3]);
        let mirroring = fat != 32 || rng.chance(1, 2);
        let clusters = match fat {
            12 => *rng.pick(&[20u32, 60, 300, 2000, 4084]),
            16 => *rng.pick(&[4085u32, 4500, 20000, 65524]),
            _ => *rng.pick(&[65525u32, 66000, 70001]),
        };
        let reserved = if fat == 32 { *rng.pick(&[8u32, 9, 32, 33]) } else { *rng.pick(&[1u32, 1, 2, 8, 33]) };
        let fsinfo_sector = if fat == 32 { 1 + rng.below(3) as u32 } else { 0 };
        let backup_sector = if fat == 32 { *rng.pick(&[0u32, 6, 6, 7]) } else { 0 };
        Spec {
            fat,
            bps,
            spc,
            nfats,
            mirroring,
            // with mirroring on the "active FAT" nibble of the extended flags means nothing; it may hold a stale number
            active_fat: if mirroring { if fat == 32 && rng.chance(1, 3) { rng.below(16) as u32 } else { 0 } } else { rng.below(u64::from(nfats)) as u32 },
            reserved,
            root_entries: if fat == 32 { 0 } else { *rng.pick(&[16u32, 32, 64, 224, 512]) * (bps / 512) + if rng.chance(1, 6) { *rng.pick(&[1u32, 4, 8, 100]) } else { 0 } },
            clusters,
            slack_sectors: if spc > 1 { rng.below(u64::from(spc)) as u32 } else { 0 },
            extra_fat_sectors: rng.below(3) as u32,
            // (sometimes in the very last or last-but-one cluster of the volume)
            root_cluster: if fat == 32 { *rng.pick(&[2u32, 2, 3, 17, clusters + 1, clusters]) } else { 0 },
            fsinfo_sector,
            backup_sector: if backup_sector == fsinfo_sector { 0 } else { backup_sector },
            status_byte: *rng.pick(&[0u8, 0, 0, 1, 2, 3]),
            fsinfo_mode: rng.below(3) as u8,
            extra_bytes: *rng.pick(&[0u32, 0, 512, 8192]),
            media: *rng.pick(&[0xF8u8, 0xF0, 0xF9, 0xFA, 0xFF]),
            high_nibbles: fat == 32 && rng.chance(2, 3),
            eoc_variants: rng.chance(3, 4),
            fragmented: rng.chance(2, 3),
            padding_nonzero: rng.chance(1, 2),
            garbage_free_clusters: rng.chance(2, 3),
            label_in_root: rng.chance(1, 2),
            max_depth: 1 + rng.below(3) as u32,
            max_entries: 2 + rng.below(7) as u32,
            bad_clusters: rng.below(3) as u32,
            nearly_full: rng.chance(1, 6),
            hint: None,
        }
    }
}

#[derive(Clone, Debug, Default)]
pub struct TNode {
    /// long name (UTF-16 units) if the entry has one
    pub long: Option<Vec<u16>>,
    pub sfn: [u8; 11],
    pub nt: u8,
    pub attr: u8,
    pub ctenth: u8,
    pub ctime: u16,
    pub cdate: u16,
    pub adate: u16,
    pub mtime: u16,
    pub mdate: u16,
    pub is_dir: bool,
    pub content: Vec<u8>,
    pub chain: Vec<u32>,
    pub children: Vec<TNode>,
}

#[derive(Clone, Debug)]
pub struct Truth {
    pub root: Vec<TNode>,
    pub root_chain: Vec<u32>,
    pub label: Option<[u8; 11]>,
    pub free_clusters: u32,
    pub total_clusters: u32,
    pub cluster_size: u32,
    pub vol_bytes: u64,
    pub data_off: u64,
    pub used: Vec<u32>,
}

struct B<'a> {
    s: &'a Spec,
    rng: &'a mut Rng,
    img: Image,
    free: Vec<u32>,
    fat: Vec<u32>,
    data_off: u64,
    cs: u32,
    sfn_counter: u32,
    overflow: bool,
}

const SFN_CHARS: &[u8] = b"ABCDEFGHIJKLMNOPQRSTUVWXYZ0123456789!#$%&'()-@^_`{}~";

impl B<'_> {
    fn alloc(&mut self, n: usize) -> Option<Vec<u32>> {
        if self.free.len() < n {
            return None;
        }
        let mut v = Vec::new();
        for _ in 0..n {
            let i = if self.s.fragmented { self.rng.usize_below(self.free.len().min(24)) } else { 0 };
            v.push(self.free.remove(i));
        }
        if self.s.fragmented && self.rng.chance(1, 3) {
            v.reverse(); // backwards chain
        }
        let eoc_base: u32 = match self.s.fat {
            12 => 0xFF8,
            16 => 0xFFF8,
            _ => 0x0FFF_FFF8,
        };
        for i in 0..v.len() {
            let val = if i + 1 < v.len() {
                v[i + 1]
            } else if self.s.eoc_variants {
                eoc_base + self.rng.below(8) as u32
            } else {
                eoc_base + 7
            };
            self.fat[v[i] as usize] = val;
        }
        Some(v)
    }
    fn cluster_off(&self, c: u32) -> u64 {
        self.data_off + u64::from(c - 2) * u64::from(self.cs)
    }
    fn write_chain(&mut self, chain: &[u32], data: &[u8]) {
        for (i, c) in chain.iter().enumerate() {
            let lo = i * self.cs as usize;
            if lo >= data.len() {
                break;
            }
            let hi = (lo + self.cs as usize).min(data.len());
            let off = self.cluster_off(*c);
            self.img.write(off, &data[lo..hi]);
        }
    }
    fn rand_stamp(&mut self) -> (u16, u16, u8) {
        let r = &mut *self.rng;
        let date = ((r.below(128) as u16) << 9) | (((1 + r.below(12)) as u16) << 5) | (1 + r.below(31)) as u16;
        let time = ((r.below(24) as u16) << 11) | ((r.below(60) as u16) << 5) | r.below(30) as u16;
        (date, time, r.below(200) as u8)
    }
    fn unique_sfn(&mut self, style: u64) -> ([u8; 11], u8) {
        // style: 0 plain upper, 1 lowercase flags, 2 0x05 lead, 3 OEM high bytes, 4 no extension, other: plain
        self.sfn_counter += 1;
        let tag = format!("{:X}", self.sfn_counter);
        let tb = tag.as_bytes();
        let mut s = [b' '; 11];
        let room = 8 - 1 - tb.len();
        let base_len = 1 + self.rng.usize_below(room.max(1));
        let letters = if style == 1 { 26 } else { SFN_CHARS.len() - 1 }; // '~' is kept as the separator
        for b in s.iter_mut().take(base_len) {
            *b = SFN_CHARS[self.rng.usize_below(letters)];
        }
        s[base_len] = if style == 1 { b'Q' } else { b'~' };
        for (i, b) in tb.iter().enumerate() {
            s[base_len + 1 + i] = *b;
        }
        if style == 1 {
            // digits would make the lowercase flag pointless; letters only (G..P encode the counter digits)
            for b in s.iter_mut().take(8) {
                if b.is_ascii_digit() {
                    *b = b'G' + (*b - b'0');
                }
            }
        }
        if style != 4 {
            let el = 1 + self.rng.usize_below(3);
            for b in s.iter_mut().skip(8).take(el) {
                *b = SFN_CHARS[self.rng.usize_below(if style == 1 { 26 } else { 36 })];
            }
        }
        let mut nt = 0u8;
        match style {
            1 => nt = *self.rng.pick(&[0x08u8, 0x10, 0x18]),
            2 => s[0] = 0x05,
            3 => {
                s[0] = 0x80 + self.rng.below(0x60) as u8;
                if s[0] == 0xE5 {
                    s[0] = 0xE6;
                }
                if self.rng.chance(1, 2) && s[9] != b' ' {
                    s[9] = 0x99;
                }
            }
            _ => {}
        }
        (s, nt)
    }
    fn rand_long(&mut self) -> Vec<u16> {
        let len = *self.rng.pick(&[1usize, 3, 8, 12, 13, 14, 25, 26, 27, 40, 100, 255]);
        let alpha: Vec<u16> = "abcXYZ019 ._-+$%'@~`!(){}^#&,;=[]\u{e9}\u{df}\u{4e2d}\u{416}".encode_utf16().collect();
        let mut v: Vec<u16> = (0..len).map(|_| alpha[self.rng.usize_below(alpha.len())]).collect();
        if self.rng.chance(1, 10) && len >= 2 {
            // a surrogate pair (astral character) is legal in a stored long name
            v[0] = 0xD83D;
            v[1] = 0xDE00;
        }
        // no trailing/leading constraints in the format itself; avoid names made of padding only
        if v.iter().all(|u| *u == 0x20 || *u == 0x2e) {
            v[0] = b'n' as u16;
        }
        v
    }
    fn lfn_slots(name: &[u16], sfn: &[u8; 11]) -> Vec<[u8; 32]> {
        let chk = sfn_checksum(sfn);
        let n = (name.len() + 12) / 13;
        let mut out = Vec::new();
        let pos = [1usize, 3, 5, 7, 9, 14, 16, 18, 20, 22, 24, 28, 30];
        for i in (0..n).rev() {
            let mut units = [0xFFFFu16; 13];
            let part = &name[i * 13..name.len().min(i * 13 + 13)];
            units[..part.len()].copy_from_slice(part);
            if part.len() < 13 {
                units[part.len()] = 0;
            }
            let mut s = [0u8; 32];
            s[0] = (i + 1) as u8 | if i == n - 1 { 0x40 } else { 0 };
            s[11] = 0x0F;
            s[13] = chk;
            for (k, p) in pos.iter().enumerate() {
                s[*p..*p + 2].copy_from_slice(&units[k].to_le_bytes());
            }
            out.push(s);
        }
        out
    }
    fn sfn_slot(n: &TNode, first: u32, fat32: bool) -> [u8; 32] {
        let mut s = [0u8; 32];
        s[..11].copy_from_slice(&n.sfn);
        s[11] = n.attr;
        s[12] = n.nt;
        s[13] = n.ctenth;
        s[14..16].copy_from_slice(&n.ctime.to_le_bytes());
        s[16..18].copy_from_slice(&n.cdate.to_le_bytes());
        s[18..20].copy_from_slice(&n.adate.to_le_bytes());
        if fat32 {
            s[20..22].copy_from_slice(&((first >> 16) as u16).to_le_bytes());
        }
        s[22..24].copy_from_slice(&n.mtime.to_le_bytes());
        s[24..26].copy_from_slice(&n.mdate.to_le_bytes());
        s[26..28].copy_from_slice(&(first as u16).to_le_bytes());
        let size = if n.is_dir { 0 } else { n.content.len() as u32 };
        s[28..32].copy_from_slice(&size.to_le_bytes());
        s
    }

    /// Build the slot list of one directory (recursively allocating children). `own`/`parent`: first clusters for dot entries
    fn gen_dir(&mut self, depth: u32, dots: Option<(u32, u32)>, is_root: bool, label: Option<[u8; 11]>, max_slots: Option<usize>) -> (Vec<[u8; 32]>, Vec<TNode>) {
        let fat32 = self.s.fat == 32;
        let mut slots: Vec<[u8; 32]> = Vec::new();
        let mut nodes: Vec<TNode> = Vec::new();
        if let Some((own, parent)) = dots {
            let (d, t, tenth) = self.rand_stamp();
            for (nm, cl) in [(b".          ", own), (b"..         ", parent)] {
                let n = TNode { sfn: *nm, attr: 0x10, is_dir: true, cdate: d, ctime: t, ctenth: tenth, adate: d, mdate: d, mtime: t, ..Default::default() };
                slots.push(Self::sfn_slot(&n, cl, fat32));
            }
        }
        let mut seen_long: std::collections::HashSet<Vec<u32>> = std::collections::HashSet::new();
        let count = self.rng.below(u64::from(self.s.max_entries) + 1) as usize + usize::from(is_root);
        let label_pos = if label.is_some() { self.rng.usize_below(count + 1) } else { usize::MAX };
        for i in 0..=count {
            if i == label_pos {
                let mut s = [0u8; 32];
                s[..11].copy_from_slice(&label.unwrap());
                s[11] = 0x08 | if self.rng.chance(1, 3) { 0x20 } else { 0 };
                let (d, t, _) = self.rand_stamp();
                s[22..24].copy_from_slice(&t.to_le_bytes());
                s[24..26].copy_from_slice(&d.to_le_bytes());
                slots.push(s);
            }
            if i == count {
                break;
            }
            if let Some(m) = max_slots {
                // a fixed root has to keep room for the largest entry (21 slots), noise and the label
                if slots.len() + 50 > m {
                    if label.is_some() && label_pos > i && label_pos != usize::MAX {
                        let mut s = [0u8; 32];
                        s[..11].copy_from_slice(&label.unwrap());
                        s[11] = 0x08;
                        slots.push(s);
                    }
                    break;
                }
            }
            // noise: deleted slots and orphaned long-name slots are legal residue
            match self.rng.below(8) {
                0 => {
                    let mut s = [0u8; 32];
                    self.rng.fill(&mut s);
                    s[0] = 0xE5;
                    slots.push(s);
                }
                1 => {
                    // deleted long-name run + deleted short entry
                    let nm = self.rand_long();
                    let (sfn, _) = self.unique_sfn(0);
                    let mut run = Self::lfn_slots(&nm[..nm.len().min(20)], &sfn);
                    let dummy = TNode { sfn, attr: 0x20, ..Default::default() };
                    run.push(Self::sfn_slot(&dummy, 0, fat32));
                    for mut s in run {
                        s[0] = 0xE5;
                        slots.push(s);
                    }
                }
                _ => {}
            }
            let is_dir = depth < self.s.max_depth && self.rng.chance(1, 4);
            let style = self.rng.below(8);
            let (sfn, nt) = self.unique_sfn(style);
            let has_long = style == 0 || style >= 5 || self.rng.chance(1, 3);
            let long = if has_long {
                // long names must be unique in a directory under case folding
                let mut l = self.rand_long();
                for _ in 0..20 {
                    if seen_long.insert(crate::fatck::fold_units(&l, true)) {
                        break;
                    }
                    l = self.rand_long();
                    l.push(b'0' as u16 + (self.sfn_counter % 10) as u16);
                    l.truncate(255);
                }
                Some(l)
            } else {
                None
            };
            let attr_bits = *self.rng.pick(&[0x20u8, 0x20, 0x00, 0x01, 0x02, 0x04, 0x07, 0x27, 0x21]);
            let (cd, ct, ctenth) = self.rand_stamp();
            let (md, mt, _) = self.rand_stamp();
            let (ad, _, _) = self.rand_stamp();
            let mut n = TNode {
                long,
                sfn,
                // NT lowercase flags only make sense without a long name, but they are legal either way
                nt,
                attr: attr_bits | if is_dir { 0x10 } else { 0 },
                ctenth,
                ctime: ct,
                cdate: cd,
                adate: ad,
                mtime: mt,
                mdate: md,
                is_dir,
                ..Default::default()
            };
            let mut first = 0u32;
            if is_dir {
                // allocate first cluster now so that the child knows itself
                if let Some(ch) = self.alloc(1) {
                    first = ch[0];
                    let parent_cluster = match dots {
                        Some((own, _)) => own,
                        None => 0, // children of the root point to 0, also on FAT32
                    };
                    let (cslots, cnodes) = self.gen_dir(depth + 1, Some((first, parent_cluster)), false, None, None);
                    let per = (self.cs / 32) as usize;
                    let mut cslots = cslots;
                    if self.rng.chance(1, 6) {
                        // a directory that exactly fills its last cluster has no end marker
                        while cslots.len() % per != 0 {
                            let mut d = [0u8; 32];
                            d[0] = 0xE5;
                            d[11] = 0x20;
                            cslots.insert(2, d);
                        }
                    }
                    let need = (cslots.len() + per - 1) / per;
                    let mut chain = ch;
                    if need > 1 {
                        if let Some(more) = self.alloc(need - 1) {
                            // link
                            let last = *chain.last().unwrap();
                            let eoc = self.fat[last as usize];
                            self.fat[last as usize] = more[0];
                            let _ = eoc;
                            chain.extend(more);
                        }
                    }
                    let mut bytes = vec![0u8; chain.len() * self.cs as usize];
                    let fit = cslots.len().min(chain.len() * per);
                    if fit < cslots.len() {
                        self.overflow = true;
                    }
                    for (k, s) in cslots.iter().take(fit).enumerate() {
                        bytes[k * 32..k * 32 + 32].copy_from_slice(s);
                    }
                    self.write_chain(&chain, &bytes);
                    n.children = cnodes;
                    n.chain = chain;
                } else {
                    continue;
                }
            } else {
                let csz = self.cs as usize;
                let size = *self.rng.pick(&[0usize, 0, 1, 100, csz - 1, csz, csz + 1, 3 * csz, 2 * csz + 7]);
                let size = size.min(6 * csz).min(200_000);
                let mut data = vec![0u8; size];
                self.rng.fill(&mut data);
                if size > 0 {
                    let need = (size + csz - 1) / csz;
                    match self.alloc(need) {
                        Some(ch) => {
                            first = ch[0];
                            self.write_chain(&ch, &data);
                            n.chain = ch;
                        }
                        None => data.clear(),
                    }
                }
                n.content = data;
            }
            if let Some(l) = &n.long {
                slots.extend(Self::lfn_slots(l, &n.sfn));
            }
            slots.push(Self::sfn_slot(&n, first, fat32));
            nodes.push(n);
        }
        // trailing residue: orphaned long-name slots without a short entry are legal garbage before the end marker
        if self.rng.chance(1, 5) {
            let nm = self.rand_long();
            let (sfn, _) = self.unique_sfn(0);
            let run = Self::lfn_slots(&nm[..nm.len().min(13)], &sfn);
            let mut del = [0u8; 32];
            del[0] = 0xE5;
            del[11] = 0x20;
            slots.extend(run);
            slots.push(del);
        }
        if let Some(m) = max_slots {
            slots.truncate(m);
        }
        (slots, nodes)
    }
}

fn ceil_div(a: u64, b: u64) -> u64 {
    (a + b - 1) / b
}

pub fn build(spec: &Spec, rng: &mut Rng) -> Result<(Image, Truth), String> {
    let s = spec;
    let bits = u64::from(s.fat);
    let entries = u64::from(s.clusters) + 2;
    let spf = ceil_div(entries * bits, 8 * u64::from(s.bps)) + u64::from(s.extra_fat_sectors);
    let root_secs = ceil_div(u64::from(s.root_entries) * 32, u64::from(s.bps));
    let first_data = u64::from(s.reserved) + u64::from(s.nfats) * spf + root_secs;
    let total = first_data + u64::from(s.clusters) * u64::from(s.spc) + u64::from(s.slack_sectors);
    if total > u64::from(u32::MAX) {
        return Err("too large".into());
    }
    let width = crate::fatck::width_for(u64::from(s.clusters));
    if width != u32::from(s.fat) {
        return Err(format!("{} clusters give FAT{}", s.clusters, width));
    }
    let vol_bytes = total * u64::from(s.bps);
    let mut img = Image::new(vol_bytes + u64::from(s.extra_bytes));
    let data_off = first_data * u64::from(s.bps);
    if s.garbage_free_clusters {
        let start = (data_off + 4095) / 4096 * 4096;
        if start < vol_bytes {
            img.set_fill_from(start, crate::vol::GARBAGE);
        }
    }
    if s.extra_bytes > 0 {
        img.write(vol_bytes, &vec![crate::vol::SENTINEL; s.extra_bytes as usize]);
    }
    let cs = s.bps * s.spc;
    let fat_capacity = (spf * u64::from(s.bps) * 8 / bits) as usize;
    let mut free: Vec<u32> = (2..s.clusters + 2).collect();
    let mut fat = vec![0u32; fat_capacity.max(entries as usize)];
    // bad clusters
    let bad_mark: u32 = match s.fat {
        12 => 0xFF7,
        16 => 0xFFF7,
        _ => 0x0FFF_FFF7,
    };
    for _ in 0..s.bad_clusters {
        if free.len() > 8 {
            let i = rng.usize_below(free.len());
            let c = free.remove(i);
            if s.fat == 32 && c == s.root_cluster {
                free.push(c);
                continue;
            }
            fat[c as usize] = bad_mark;
        }
    }
    let mut b = B { s, rng, img, free, fat, data_off, cs, sfn_counter: 0, overflow: false };
    let label = if s.label_in_root { Some(*b"BUILT LABEL") } else { None };
    let mut root_chain = Vec::new();
    let root_nodes;
    if s.fat == 32 {
        // the root cluster is where the spec says
        let idx = b.free.iter().position(|c| *c == s.root_cluster).ok_or("root cluster not free")?;
        b.free.remove(idx);
        b.fat[s.root_cluster as usize] = 0x0FFF_FFFF;
        root_chain.push(s.root_cluster);
        let (slots, nodes) = b.gen_dir(0, None, true, label, None);
        let per = (cs / 32) as usize;
        let need = (slots.len() + per - 1) / per;
        if need > 1 {
            if let Some(more) = b.alloc(need - 1) {
                b.fat[s.root_cluster as usize] = more[0];
                root_chain.extend(more);
            }
        }
        let mut bytes = vec![0u8; root_chain.len() * cs as usize];
        let fit = slots.len().min(root_chain.len() * per);
        for (k, sl) in slots.iter().take(fit).enumerate() {
            bytes[k * 32..k * 32 + 32].copy_from_slice(sl);
        }
        if fit < slots.len() {
            return Err("root did not fit".into());
        }
        let rc = root_chain.clone();
        b.write_chain(&rc, &bytes);
        root_nodes = nodes;
    } else {
        let (slots, nodes) = b.gen_dir(0, None, true, label, Some(s.root_entries as usize));
        let mut bytes = vec![0u8; (root_secs * u64::from(s.bps)) as usize];
        for (k, sl) in slots.iter().enumerate() {
            bytes[k * 32..k * 32 + 32].copy_from_slice(sl);
        }
        let root_off = (u64::from(s.reserved) + u64::from(s.nfats) * spf) * u64::from(s.bps);
        b.img.write(root_off, &bytes);
        root_nodes = nodes;
    }
    if b.overflow {
        return Err("volume too small for the generated tree".into());
    }
    // ---- FAT tables
    let B { rng, mut img, mut free, mut fat, .. } = b;
    if s.nearly_full {
        // everything else is unusable (bad clusters): a few allocations take such a volume to full
        let keep = 3 + rng.usize_below(24);
        while free.len() > keep {
            let i = rng.usize_below(free.len());
            let c = free.remove(i);
            fat[c as usize] = bad_mark;
        }
    }
    let f0: u32 = match s.fat {
        12 => 0xF00 | u32::from(s.media),
        16 => 0xFF00 | u32::from(s.media),
        _ => 0x0FFF_FF00 | u32::from(s.media),
    };
    fat[0] = f0;
    fat[1] = match s.fat {
        12 => 0xFFF,
        16 => 0xFFFF, // clean shutdown, no errors
        _ => 0x0FFF_FFFF,
    };
    if s.padding_nonzero {
        for e in fat.iter_mut().skip(entries as usize) {
            *e = match s.fat {
                12 => 0xFFF,
                16 => 0xFFFF,
                _ => 0x0FFF_FFFF,
            };
        }
    }
    if s.high_nibbles {
        for (i, e) in fat.iter_mut().enumerate() {
            if i >= 2 && rng.chance(1, 3) {
                *e |= (rng.below(16) as u32) << 28;
            }
        }
    }
    let fat_bytes = (spf * u64::from(s.bps)) as usize;
    let mut table = vec![0u8; fat_bytes];
    for (i, e) in fat.iter().enumerate() {
        match s.fat {
            12 => {
                let o = i + i / 2;
                if o + 1 >= table.len() {
                    break;
                }
                let cur = u16::from_le_bytes([table[o], table[o + 1]]);
                let v = if i % 2 == 0 { (cur & 0xF000) | (*e as u16 & 0x0FFF) } else { (cur & 0x000F) | ((*e as u16) << 4) };
                table[o..o + 2].copy_from_slice(&v.to_le_bytes());
            }
            16 => {
                if i * 2 + 1 >= table.len() {
                    break;
                }
                table[i * 2..i * 2 + 2].copy_from_slice(&(*e as u16).to_le_bytes());
            }
            _ => {
                if i * 4 + 3 >= table.len() {
                    break;
                }
                table[i * 4..i * 4 + 4].copy_from_slice(&e.to_le_bytes());
            }
        }
    }
    for c in 0..s.nfats {
        let off = (u64::from(s.reserved) + u64::from(c) * spf) * u64::from(s.bps);
        if s.mirroring || c == s.active_fat {
            img.write(off, &table);
        } else {
            // stale / different content in inactive copies: a reader that picks the wrong copy is lost
            let mut stale = vec![0u8; fat_bytes];
            rng.fill(&mut stale[..fat_bytes.min(4096)]);
            img.write(off, &stale);
        }
    }
    // ---- boot sector
    let mut bs = vec![0u8; s.bps as usize];
    bs[0] = 0xEB;
    bs[1] = 0x3C;
    bs[2] = 0x90;
    bs[3..11].copy_from_slice(&[b'm', b'k', 0x99, b'f', b's', 0xFE, b'.', b'x']);
    bs[11..13].copy_from_slice(&(s.bps as u16).to_le_bytes());
    bs[13] = s.spc as u8;
    bs[14..16].copy_from_slice(&(s.reserved as u16).to_le_bytes());
    bs[16] = s.nfats as u8;
    bs[17..19].copy_from_slice(&(s.root_entries as u16).to_le_bytes());
    if s.fat != 32 && total < 0x10000 && rng.chance(2, 3) {
        bs[19..21].copy_from_slice(&(total as u16).to_le_bytes());
    } else {
        bs[32..36].copy_from_slice(&(total as u32).to_le_bytes());
    }
    bs[21] = s.media;
    bs[24..26].copy_from_slice(&63u16.to_le_bytes());
    bs[26..28].copy_from_slice(&255u16.to_le_bytes());
    bs[28..32].copy_from_slice(&rng.next_u32().to_le_bytes()); // hidden sectors: irrelevant to the driver
    let o = if s.fat == 32 {
        bs[36..40].copy_from_slice(&(spf as u32).to_le_bytes());
        let flags: u16 = if s.mirroring { s.active_fat as u16 & 0x0F } else { 0x80 | s.active_fat as u16 };
        bs[40..42].copy_from_slice(&flags.to_le_bytes());
        bs[44..48].copy_from_slice(&s.root_cluster.to_le_bytes());
        bs[48..50].copy_from_slice(&(s.fsinfo_sector as u16).to_le_bytes());
        bs[50..52].copy_from_slice(&(s.backup_sector as u16).to_le_bytes());
        64
    } else {
        bs[22..24].copy_from_slice(&(spf as u16).to_le_bytes());
        36
    };
    bs[o] = 0x80;
    bs[o + 1] = s.status_byte;
    bs[o + 2] = 0x29;
    bs[o + 3..o + 7].copy_from_slice(&0xCAFE_F00Du32.to_le_bytes());
    bs[o + 7..o + 18].copy_from_slice(b"BPB LABEL  ");
    bs[o + 18..o + 26].copy_from_slice(match s.fat {
        12 => b"FAT12   ",
        16 => b"FAT16   ",
        _ => b"FAT32   ",
    });
    // boot code area: arbitrary bytes
    for x in bs.iter_mut().take(510).skip(o + 26) {
        *x = 0x90;
    }
    bs[510] = 0x55;
    bs[511] = 0xAA;
    img.write(0, &bs);
    // reserved area sentinels (must never be touched)
    for sec in 1..s.reserved {
        if s.fat == 32 && (sec == s.fsinfo_sector || sec == s.backup_sector) {
            continue;
        }
        img.write(u64::from(sec) * u64::from(s.bps), &vec![0x5Au8; s.bps as usize]);
    }
    let free_count = free.len() as u32;
    if s.fat == 32 {
        if s.backup_sector != 0 {
            img.write(u64::from(s.backup_sector) * u64::from(s.bps), &bs);
        }
        let mut fi = vec![0u8; s.bps as usize];
        fi[0..4].copy_from_slice(&0x4161_5252u32.to_le_bytes());
        fi[484..488].copy_from_slice(&0x6141_7272u32.to_le_bytes());
        let (cnt, hint) = match s.fsinfo_mode {
            0 => (free_count, s.hint.unwrap_or_else(|| free.first().copied().unwrap_or(0xFFFF_FFFF))),
            1 => (0xFFFF_FFFF, s.hint.unwrap_or(0xFFFF_FFFF)),
            _ => (s.clusters + 1 + rng.below(1000) as u32, s.hint.unwrap_or(s.clusters + 2 + rng.below(1000) as u32)),
        };
        fi[488..492].copy_from_slice(&cnt.to_le_bytes());
        fi[492..496].copy_from_slice(&hint.to_le_bytes());
        fi[508..512].copy_from_slice(&0xAA55_0000u32.to_le_bytes());
        img.write(u64::from(s.fsinfo_sector) * u64::from(s.bps), &fi);
    }
    let mut used: Vec<u32> = (2..s.clusters + 2).filter(|c| !free.contains(c)).collect();
    used.sort_unstable();
    Ok((
        img,
        Truth {
            root: root_nodes,
            root_chain,
            label,
            free_clusters: free_count,
            total_clusters: s.clusters,
            cluster_size: cs,
            vol_bytes,
            data_off,
            used,
        },
    ))
}
