//! MonDev: instrumented block device (copy-on-write paged image, event log, fault plan, call budget,
//! short transfers) implementing the fatfs storage traits directly.
#![allow(dead_code)]

use std::cell::RefCell;
use std::collections::BTreeMap;
use std::rc::Rc;

use crate::util::{Fnv, Rng};

pub const PAGE: usize = 4096;
pub type Page = [u8; PAGE];

/// Copy-on-write paged byte image. Unmapped pages read as the fill byte of their region.
#[derive(Clone)]
pub struct Image {
    len: u64,
    pages: BTreeMap<u64, Rc<Page>>,
    /// sorted (start offset, fill byte); region extends to the next start. Implicit (0, 0).
    fills: Vec<(u64, u8)>,
}

impl Image {
    pub fn new(len: u64) -> Self {
        Image {
            len,
            pages: BTreeMap::new(),
            fills: vec![(0, 0)],
        }
    }
    pub fn from_bytes(b: &[u8]) -> Self {
        let mut i = Image::new(b.len() as u64);
        i.write(0, b);
        i
    }
    pub fn len(&self) -> u64 {
        self.len
    }
    /// set the fill byte for unmapped pages from `start` on (start must be page aligned)
    pub fn set_fill_from(&mut self, start: u64, byte: u8) {
        assert!(start % PAGE as u64 == 0);
        self.fills.retain(|f| f.0 < start);
        self.fills.push((start, byte));
        // mapped pages keep their content
    }
    pub fn fill_at(&self, off: u64) -> u8 {
        let mut b = 0;
        for f in &self.fills {
            if f.0 <= off {
                b = f.1;
            } else {
                break;
            }
        }
        b
    }
    pub fn mapped_pages(&self) -> usize {
        self.pages.len()
    }
    /// Some(fill) when the page containing `off` is not mapped
    pub fn unmapped_fill(&self, off: u64) -> Option<u8> {
        let pi = off / PAGE as u64;
        if self.pages.contains_key(&pi) {
            None
        } else {
            Some(self.fill_at(pi * PAGE as u64))
        }
    }
    pub fn read(&self, off: u64, buf: &mut [u8]) {
        let mut done = 0usize;
        while done < buf.len() {
            let o = off + done as u64;
            let pi = o / PAGE as u64;
            let po = (o % PAGE as u64) as usize;
            let n = (PAGE - po).min(buf.len() - done);
            match self.pages.get(&pi) {
                Some(p) => buf[done..done + n].copy_from_slice(&p[po..po + n]),
                None => {
                    let f = self.fill_at(pi * PAGE as u64);
                    for b in &mut buf[done..done + n] {
                        *b = f;
                    }
                }
            }
            done += n;
        }
    }
    pub fn write(&mut self, off: u64, data: &[u8]) {
        let mut done = 0usize;
        while done < data.len() {
            let o = off + done as u64;
            let pi = o / PAGE as u64;
            let po = (o % PAGE as u64) as usize;
            let n = (PAGE - po).min(data.len() - done);
            let chunk = &data[done..done + n];
            if let Some(p) = self.pages.get_mut(&pi) {
                if p[po..po + n] != *chunk {
                    Rc::make_mut(p)[po..po + n].copy_from_slice(chunk);
                }
            } else {
                let f = self.fill_at(pi * PAGE as u64);
                if chunk.iter().any(|b| *b != f) {
                    let mut p: Box<Page> = Box::new([f; PAGE]);
                    p[po..po + n].copy_from_slice(chunk);
                    self.pages.insert(pi, Rc::from(p));
                }
            }
            done += n;
        }
    }
    pub fn bytes(&self, off: u64, len: usize) -> Vec<u8> {
        let mut v = vec![0u8; len];
        self.read(off, &mut v);
        v
    }
    pub fn u8(&self, off: u64) -> u8 {
        let mut b = [0u8; 1];
        self.read(off, &mut b);
        b[0]
    }
    pub fn u16(&self, off: u64) -> u16 {
        let mut b = [0u8; 2];
        self.read(off, &mut b);
        u16::from_le_bytes(b)
    }
    pub fn u32(&self, off: u64) -> u32 {
        let mut b = [0u8; 4];
        self.read(off, &mut b);
        u32::from_le_bytes(b)
    }
    pub fn set_u8(&mut self, off: u64, v: u8) {
        self.write(off, &[v]);
    }
    pub fn set_u16(&mut self, off: u64, v: u16) {
        self.write(off, &v.to_le_bytes());
    }
    pub fn set_u32(&mut self, off: u64, v: u32) {
        self.write(off, &v.to_le_bytes());
    }
    /// Byte ranges [start,end) on which the two images differ (same fills assumed for unmapped pages of both).
    pub fn diff(&self, other: &Image) -> Vec<(u64, u64)> {
        let mut out: Vec<(u64, u64)> = Vec::new();
        let mut keys: Vec<u64> = self.pages.keys().copied().collect();
        for k in other.pages.keys() {
            if !self.pages.contains_key(k) {
                keys.push(*k);
            }
        }
        keys.sort_unstable();
        let mut push = |s: u64, e: u64, out: &mut Vec<(u64, u64)>| {
            if let Some(l) = out.last_mut() {
                if l.1 == s {
                    l.1 = e;
                    return;
                }
            }
            out.push((s, e));
        };
        for k in keys {
            let a = self.pages.get(&k);
            let b = other.pages.get(&k);
            if let (Some(a), Some(b)) = (a, b) {
                if Rc::ptr_eq(a, b) {
                    continue;
                }
            }
            let base = k * PAGE as u64;
            let fa;
            let fb;
            let pa: &Page = match a {
                Some(p) => p,
                None => {
                    fa = [self.fill_at(base); PAGE];
                    &fa
                }
            };
            let pb: &Page = match b {
                Some(p) => p,
                None => {
                    fb = [other.fill_at(base); PAGE];
                    &fb
                }
            };
            if pa == pb {
                continue;
            }
            let mut i = 0;
            while i < PAGE {
                if pa[i] != pb[i] {
                    let s = i;
                    while i < PAGE && pa[i] != pb[i] {
                        i += 1;
                    }
                    push(base + s as u64, base + i as u64, &mut out);
                } else {
                    i += 1;
                }
            }
        }
        out
    }
    pub fn same_as(&self, other: &Image) -> bool {
        self.len == other.len && self.diff(other).is_empty()
    }
    /// content hash (independent of which pages happen to be mapped)
    pub fn hash(&self) -> u64 {
        let mut f = Fnv::new();
        f.u64(self.len);
        for (k, p) in &self.pages {
            let fill = self.fill_at(*k * PAGE as u64);
            if p.iter().all(|b| *b == fill) {
                continue;
            }
            f.u64(*k);
            f.bytes(&p[..]);
        }
        f.get()
    }
    pub fn to_vec(&self) -> Vec<u8> {
        self.bytes(0, self.len as usize)
    }
    /// Feed the whole content (mapped, non-fill pages with their index) into a SHA-256.
    pub fn sha256(&self) -> String {
        let mut s = crate::util::Sha256::new();
        s.update(&self.len.to_le_bytes());
        for (k, p) in &self.pages {
            let fill = self.fill_at(*k * PAGE as u64);
            if p.iter().all(|b| *b == fill) {
                continue;
            }
            s.update(&k.to_le_bytes());
            s.update(&p[..]);
        }
        crate::util::hex(&s.finish())
    }
}

// ------------------------------------------------------------------------------------------------

#[derive(Clone, Copy, Debug, PartialEq, Eq)]
pub enum EvKind {
    Read,
    Write,
    Seek,
    Flush,
}

impl EvKind {
    pub fn bit(self) -> u8 {
        match self {
            EvKind::Read => 1,
            EvKind::Write => 2,
            EvKind::Seek => 4,
            EvKind::Flush => 8,
        }
    }
    pub fn name(self) -> &'static str {
        match self {
            EvKind::Read => "read",
            EvKind::Write => "write",
            EvKind::Seek => "seek",
            EvKind::Flush => "flush",
        }
    }
}

#[derive(Clone, Debug)]
pub struct Ev {
    pub seq: u64,
    pub kind: EvKind,
    /// device position the call applied to (for seek: the resulting position)
    pub off: u64,
    /// bytes transferred (read/write) or requested length on error
    pub len: u64,
    pub ok: bool,
    pub in_drop: bool,
    pub payload: Option<Vec<u8>>,
}

#[derive(Clone, Copy, Debug, PartialEq, Eq)]
pub struct DevError {
    pub code: u32,
}

pub const CODE_EOF: u32 = 0xE0F;
pub const CODE_WRITE_ZERO: u32 = 0x2E0;
pub const CODE_BUDGET: u32 = 0xB0D6;
pub const CODE_RO: u32 = 0x0120;

impl fatfs::IoError for DevError {
    fn is_interrupted(&self) -> bool {
        false
    }
    fn new_unexpected_eof_error() -> Self {
        DevError { code: CODE_EOF }
    }
    fn new_write_zero_error() -> Self {
        DevError { code: CODE_WRITE_ZERO }
    }
}

#[derive(Clone, Debug)]
pub struct FaultPlan {
    /// 1-based index among the device calls counted since the last `begin_call`
    pub k: u64,
    /// bit mask of EvKind the fault may hit; calls of other kinds are not counted
    pub kinds: u8,
    pub code: u32,
}

#[derive(Clone, Debug)]
pub struct FaultFired {
    pub kind: EvKind,
    pub in_drop: bool,
    pub seq: u64,
    pub off: u64,
    /// first bytes of the buffer of a failed write
    pub head: Vec<u8>,
}

/// Sentinel panic payload of the call budget.
pub struct BudgetTrip;

pub struct DevState {
    pub img: Image,
    pub pos: u64,
    pub seq: u64,
    pub log: Vec<Ev>,
    pub log_on: bool,
    pub log_payload: bool,
    /// calls since begin_call
    pub calls: u64,
    /// calls matching fault kinds since begin_call
    pub fault_count: u64,
    pub fault: Option<FaultPlan>,
    pub fired: Option<FaultFired>,
    pub budget: Option<u64>,
    pub tripped: bool,
    pub short: Option<Rng>,
    pub fail_writes: bool,
    /// declared end of the volume (accesses at/after it are recorded)
    pub vol_end: u64,
    pub beyond: Vec<(EvKind, u64, u64)>,
    pub n_reads: u64,
    pub n_writes: u64,
    /// byte range whose writes are counted separately (the FAT32 information sector)
    pub watch: Option<(u64, u64)>,
    pub n_writes_watch: u64,
    pub n_seeks: u64,
    pub n_flushes: u64,
    pub bytes_written: u64,
}

#[derive(Clone)]
pub struct MonDev(pub Rc<RefCell<DevState>>);

impl MonDev {
    pub fn new(img: Image) -> Self {
        let vol_end = img.len();
        MonDev(Rc::new(RefCell::new(DevState {
            img,
            pos: 0,
            seq: 0,
            log: Vec::new(),
            log_on: true,
            log_payload: false,
            calls: 0,
            fault_count: 0,
            fault: None,
            fired: None,
            budget: None,
            tripped: false,
            short: None,
            fail_writes: false,
            vol_end,
            beyond: Vec::new(),
            n_reads: 0,
            n_writes: 0,
            watch: None,
            n_writes_watch: 0,
            n_seeks: 0,
            n_flushes: 0,
            bytes_written: 0,
        })))
    }
    pub fn handle(&self) -> MonDev {
        MonDev(self.0.clone())
    }
    /// Start of a monitored API call: clears the per-call log and counters.
    pub fn begin_call(&self) {
        let mut s = self.0.borrow_mut();
        s.log.clear();
        s.calls = 0;
        s.fault_count = 0;
        s.fired = None;
        s.tripped = false;
    }
    pub fn take_log(&self) -> Vec<Ev> {
        std::mem::take(&mut self.0.borrow_mut().log)
    }
    pub fn snapshot(&self) -> Image {
        self.0.borrow().img.clone()
    }
    pub fn with_img<R>(&self, f: impl FnOnce(&Image) -> R) -> R {
        f(&self.0.borrow().img)
    }
    pub fn with_img_mut<R>(&self, f: impl FnOnce(&mut Image) -> R) -> R {
        f(&mut self.0.borrow_mut().img)
    }
    pub fn set_pos(&self, p: u64) {
        self.0.borrow_mut().pos = p;
    }
    pub fn calls(&self) -> u64 {
        self.0.borrow().calls
    }
    pub fn set_fault(&self, f: Option<FaultPlan>) {
        let mut s = self.0.borrow_mut();
        s.fault = f;
        s.fired = None;
        s.fault_count = 0;
    }
    pub fn set_budget(&self, b: Option<u64>) {
        let mut s = self.0.borrow_mut();
        s.budget = b;
        s.tripped = false;
    }
    pub fn tripped(&self) -> bool {
        self.0.borrow().tripped
    }
    pub fn fired(&self) -> Option<FaultFired> {
        self.0.borrow().fired.clone()
    }
    pub fn set_logging(&self, on: bool, payload: bool) {
        let mut s = self.0.borrow_mut();
        s.log_on = on;
        s.log_payload = payload;
    }
    pub fn set_short(&self, r: Option<Rng>) {
        self.0.borrow_mut().short = r;
    }
    pub fn set_vol_end(&self, e: u64) {
        self.0.borrow_mut().vol_end = e;
    }
}

impl DevState {
    /// common prologue of every device call; returns Err if a fault / budget applies
    fn enter(&mut self, kind: EvKind, len: u64) -> Result<(), DevError> {
        self.seq += 1;
        self.calls += 1;
        match kind {
            EvKind::Read => self.n_reads += 1,
            EvKind::Write => {
                self.n_writes += 1;
                if let Some((a, b)) = self.watch {
                    if self.pos >= a && self.pos + len.max(1) <= b {
                        self.n_writes_watch += 1;
                    }
                }
            }
            EvKind::Seek => self.n_seeks += 1,
            EvKind::Flush => self.n_flushes += 1,
        }
        if let Some(b) = self.budget {
            if self.calls > b {
                let first = !self.tripped;
                self.tripped = true;
                if first && !std::thread::panicking() {
                    std::panic::panic_any(BudgetTrip);
                }
                return Err(DevError { code: CODE_BUDGET });
            }
        }
        if let Some(f) = &self.fault {
            if f.kinds & kind.bit() != 0 && self.fired.is_none() {
                self.fault_count += 1;
                if self.fault_count == f.k {
                    let in_drop = fatfs::verif_hooks::in_drop();
                    let code = f.code;
                    self.fired = Some(FaultFired {
                        kind,
                        in_drop,
                        seq: self.seq,
                        off: self.pos,
                        head: Vec::new(),
                    });
                    self.push(kind, self.pos, len, false, None);
                    return Err(DevError { code });
                }
            }
        }
        Ok(())
    }
    fn push(&mut self, kind: EvKind, off: u64, len: u64, ok: bool, payload: Option<Vec<u8>>) {
        // long scans (free-count over a 2^28-entry table) would otherwise log hundreds of millions of reads
        if self.log_on && (self.log.len() < 500_000 || matches!(kind, EvKind::Write | EvKind::Flush)) {
            let in_drop = fatfs::verif_hooks::in_drop();
            self.log.push(Ev {
                seq: self.seq,
                kind,
                off,
                len,
                ok,
                in_drop,
                payload,
            });
        }
    }
    fn short_len(&mut self, n: usize) -> usize {
        if n <= 1 {
            return n;
        }
        if let Some(r) = &mut self.short {
            match r.below(4) {
                0 => n,
                1 => 1,
                2 => 1 + r.usize_below(n),
                _ => (n / 2).max(1),
            }
        } else {
            n
        }
    }
}

impl fatfs::IoBase for MonDev {
    type Error = DevError;
}

impl fatfs::Read for MonDev {
    fn read(&mut self, buf: &mut [u8]) -> Result<usize, DevError> {
        let mut s = self.0.borrow_mut();
        s.enter(EvKind::Read, buf.len() as u64)?;
        let pos = s.pos;
        let avail = s.img.len().saturating_sub(pos);
        let mut n = (buf.len() as u64).min(avail) as usize;
        n = s.short_len(n);
        if n > 0 {
            s.img.read(pos, &mut buf[..n]);
        }
        if !buf.is_empty() && pos + (buf.len() as u64) > s.vol_end {
            let l = buf.len() as u64;
            s.beyond.push((EvKind::Read, pos, l));
        }
        s.pos += n as u64;
        s.push(EvKind::Read, pos, n as u64, true, None);
        Ok(n)
    }
}

impl fatfs::Write for MonDev {
    fn write(&mut self, buf: &[u8]) -> Result<usize, DevError> {
        let mut s = self.0.borrow_mut();
        if let Err(e) = s.enter(EvKind::Write, buf.len() as u64) {
            if let Some(f) = &mut s.fired {
                if f.head.is_empty() && f.kind == EvKind::Write {
                    f.head = buf[..buf.len().min(8)].to_vec();
                }
            }
            return Err(e);
        }
        let pos = s.pos;
        if s.fail_writes {
            s.push(EvKind::Write, pos, buf.len() as u64, false, None);
            return Err(DevError { code: CODE_RO });
        }
        let avail = s.img.len().saturating_sub(pos);
        let mut n = (buf.len() as u64).min(avail) as usize;
        n = s.short_len(n);
        if !buf.is_empty() && pos + (buf.len() as u64) > s.vol_end {
            let l = buf.len() as u64;
            s.beyond.push((EvKind::Write, pos, l));
        }
        if n > 0 {
            s.img.write(pos, &buf[..n]);
        }
        s.pos += n as u64;
        s.bytes_written += n as u64;
        let payload = if s.log_payload { Some(buf[..n].to_vec()) } else { None };
        s.push(EvKind::Write, pos, n as u64, true, payload);
        Ok(n)
    }
    fn flush(&mut self) -> Result<(), DevError> {
        let mut s = self.0.borrow_mut();
        s.enter(EvKind::Flush, 0)?;
        let pos = s.pos;
        s.push(EvKind::Flush, pos, 0, true, None);
        Ok(())
    }
}

impl fatfs::Seek for MonDev {
    fn seek(&mut self, pos: fatfs::SeekFrom) -> Result<u64, DevError> {
        let mut s = self.0.borrow_mut();
        s.enter(EvKind::Seek, 0)?;
        let new = match pos {
            fatfs::SeekFrom::Start(x) => Some(x),
            fatfs::SeekFrom::Current(d) => {
                let p = s.pos as i128 + d as i128;
                if p < 0 || p > u64::MAX as i128 {
                    None
                } else {
                    Some(p as u64)
                }
            }
            fatfs::SeekFrom::End(d) => {
                let p = s.img.len() as i128 + d as i128;
                if p < 0 || p > u64::MAX as i128 {
                    None
                } else {
                    Some(p as u64)
                }
            }
        };
        match new {
            Some(p) => {
                s.pos = p;
                s.push(EvKind::Seek, p, 0, true, None);
                Ok(p)
            }
            None => {
                let p = s.pos;
                s.push(EvKind::Seek, p, 0, false, None);
                Err(DevError { code: 0x5EE0 })
            }
        }
    }
}
