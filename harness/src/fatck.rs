//! fatck: independent FAT decoder / structural checker, written from the FAT specification
//! (fatgen103 + LFN appendix). Shares no code with the crate under test: it only looks at raw bytes.
#![allow(dead_code)]

use std::collections::{BTreeMap, HashMap, HashSet};

use crate::dev::Image;

// ------------------------------------------------------------------------------------------------
// BPB

#[derive(Clone, Debug, Default)]
pub struct RawBpb {
    pub jmp: [u8; 3],
    pub bps: u16,
    pub spc: u8,
    pub reserved: u16,
    pub nfats: u8,
    pub root_entries: u16,
    pub total16: u16,
    pub media: u8,
    pub spf16: u16,
    pub spt: u16,
    pub heads: u16,
    pub hidden: u32,
    pub total32: u32,
    // fat32 part (valid only if spf16 == 0)
    pub spf32: u32,
    pub ext_flags: u16,
    pub fs_version: u16,
    pub root_cluster: u32,
    pub fsinfo_sector: u16,
    pub backup_sector: u16,
    pub drive_num: u8,
    pub status: u8,
    pub ext_sig: u8,
    pub volume_id: u32,
    pub label: [u8; 11],
    pub fs_type: [u8; 8],
    pub sig: [u8; 2],
}

fn le16(b: &[u8], o: usize) -> u16 {
    u16::from_le_bytes([b[o], b[o + 1]])
}
fn le32(b: &[u8], o: usize) -> u32 {
    u32::from_le_bytes([b[o], b[o + 1], b[o + 2], b[o + 3]])
}

pub fn parse_raw_bpb(b: &[u8]) -> RawBpb {
    assert!(b.len() >= 512);
    let mut r = RawBpb {
        jmp: [b[0], b[1], b[2]],
        bps: le16(b, 11),
        spc: b[13],
        reserved: le16(b, 14),
        nfats: b[16],
        root_entries: le16(b, 17),
        total16: le16(b, 19),
        media: b[21],
        spf16: le16(b, 22),
        spt: le16(b, 24),
        heads: le16(b, 26),
        hidden: le32(b, 28),
        total32: le32(b, 32),
        sig: [b[510], b[511]],
        ..Default::default()
    };
    let o = if r.spf16 == 0 {
        r.spf32 = le32(b, 36);
        r.ext_flags = le16(b, 40);
        r.fs_version = le16(b, 42);
        r.root_cluster = le32(b, 44);
        r.fsinfo_sector = le16(b, 48);
        r.backup_sector = le16(b, 50);
        64
    } else {
        36
    };
    r.drive_num = b[o];
    r.status = b[o + 1];
    r.ext_sig = b[o + 2];
    r.volume_id = le32(b, o + 3);
    r.label.copy_from_slice(&b[o + 7..o + 18]);
    r.fs_type.copy_from_slice(&b[o + 18..o + 26]);
    r
}

#[derive(Clone, Debug, PartialEq, Eq)]
pub struct Geo {
    pub bps: u64,
    pub spc: u64,
    pub reserved: u64,
    pub nfats: u64,
    pub root_entries: u64,
    pub total_sectors: u64,
    pub spf: u64,
    /// 12, 16 or 32
    pub fat_bits: u32,
    pub layout32: bool,
    pub ext_flags: u16,
    pub root_cluster: u32,
    pub fsinfo_sector: u64,
    pub backup_sector: u64,
    pub root_dir_sectors: u64,
    pub first_data_sector: u64,
    pub total_clusters: u64,
    pub cluster_size: u64,
    pub media: u8,
    pub status_off: u64,
}

pub fn width_for(clusters: u64) -> u32 {
    if clusters < 4085 {
        12
    } else if clusters < 65525 {
        16
    } else {
        32
    }
}

/// Independent coherence check of a BPB in wide integer arithmetic. Err(reason) = incoherent.
pub fn coherent(r: &RawBpb) -> Result<Geo, String> {
    let bps = u128::from(r.bps);
    if !(512..=4096).contains(&bps) || !bps.is_power_of_two() {
        return Err(format!("bytes/sector {}", bps));
    }
    let spc = u128::from(r.spc);
    if spc == 0 || !spc.is_power_of_two() {
        return Err(format!("sectors/cluster {}", spc));
    }
    if r.reserved == 0 {
        return Err("reserved sectors 0".into());
    }
    if r.nfats == 0 {
        return Err("zero FATs".into());
    }
    let layout32 = r.spf16 == 0;
    let spf: u128 = if layout32 { u128::from(r.spf32) } else { u128::from(r.spf16) };
    if spf == 0 {
        return Err("zero FAT size".into());
    }
    let total: u128 = if r.total16 != 0 { u128::from(r.total16) } else { u128::from(r.total32) };
    if total == 0 {
        return Err("zero total sectors".into());
    }
    if r.total16 != 0 && r.total32 != 0 && u32::from(r.total16) != r.total32 {
        return Err("conflicting total sector fields".into());
    }
    if layout32 {
        if r.root_entries != 0 {
            return Err("FAT32 with root entries".into());
        }
        if r.total16 != 0 {
            return Err("FAT32 with total16".into());
        }
        if r.fs_version != 0 {
            return Err("FAT32 version".into());
        }
    } else if r.root_entries == 0 {
        return Err("FAT12/16 without root entries".into());
    }
    let root_bytes = u128::from(r.root_entries) * 32;
    let root_dir_sectors = (root_bytes + bps - 1) / bps;
    let fats_sectors = u128::from(r.nfats) * spf;
    let first_data = u128::from(r.reserved) + fats_sectors + root_dir_sectors;
    let lim = 1u128 << 32;
    if fats_sectors >= lim || first_data >= lim {
        return Err("metadata size wraps 32 bits".into());
    }
    if first_data >= total {
        return Err(format!("metadata ({}) does not fit in {} sectors", first_data, total));
    }
    let data_sectors = total - first_data;
    let clusters = data_sectors / spc;
    let bits = width_for(clusters as u64);
    if layout32 != (bits == 32) {
        return Err(format!("FAT width {} inconsistent with layout32={}", bits, layout32));
    }
    if clusters > 0x0FFF_FFF4 {
        // more clusters than FAT32 can number
        return Err("too many clusters".into());
    }
    if layout32 {
        let rc = u128::from(r.root_cluster);
        if rc < 2 || rc > clusters + 1 {
            return Err(format!("root cluster {} out of range 2..={}", rc, clusters + 1));
        }
        if u128::from(r.fsinfo_sector) >= u128::from(r.reserved) {
            return Err("fsinfo sector outside reserved area".into());
        }
        if u128::from(r.backup_sector) >= u128::from(r.reserved) {
            return Err("backup sector outside reserved area".into());
        }
    }
    Ok(Geo {
        bps: bps as u64,
        spc: spc as u64,
        reserved: u64::from(r.reserved),
        nfats: u64::from(r.nfats),
        root_entries: u64::from(r.root_entries),
        total_sectors: total as u64,
        spf: spf as u64,
        fat_bits: bits,
        layout32,
        ext_flags: if layout32 { r.ext_flags } else { 0 },
        root_cluster: if layout32 { r.root_cluster } else { 0 },
        fsinfo_sector: u64::from(r.fsinfo_sector),
        backup_sector: u64::from(r.backup_sector),
        root_dir_sectors: root_dir_sectors as u64,
        first_data_sector: first_data as u64,
        total_clusters: clusters as u64,
        cluster_size: (bps * spc) as u64,
        media: r.media,
        status_off: if layout32 { 0x41 } else { 0x25 },
    })
}

pub fn geo_of(img: &Image) -> Result<Geo, String> {
    if img.len() < 512 {
        return Err("image shorter than a boot sector".into());
    }
    let b = img.bytes(0, 512);
    coherent(&parse_raw_bpb(&b))
}

#[derive(Clone, Copy, Debug, PartialEq, Eq)]
pub enum Region {
    BootStatus,
    BootOther,
    FsInfo,
    BackupBoot,
    ReservedOther,
    Fat(u32),
    RootDir,
    Data(u32),
    Slack,
    Beyond,
}

impl Geo {
    pub fn vol_end(&self) -> u64 {
        self.total_sectors * self.bps
    }
    pub fn fat_off(&self, copy: u64) -> u64 {
        (self.reserved + copy * self.spf) * self.bps
    }
    pub fn fat_bytes(&self) -> u64 {
        self.spf * self.bps
    }
    pub fn root_off(&self) -> u64 {
        (self.reserved + self.nfats * self.spf) * self.bps
    }
    pub fn root_len(&self) -> u64 {
        self.root_dir_sectors * self.bps
    }
    pub fn data_off(&self) -> u64 {
        self.first_data_sector * self.bps
    }
    pub fn cluster_off(&self, n: u32) -> u64 {
        self.data_off() + (u64::from(n) - 2) * self.cluster_size
    }
    pub fn max_cluster(&self) -> u64 {
        self.total_clusters + 1
    }
    pub fn valid_cluster(&self, n: u32) -> bool {
        u64::from(n) >= 2 && u64::from(n) <= self.max_cluster()
    }
    pub fn mirroring(&self) -> bool {
        !(self.fat_bits == 32 && self.ext_flags & 0x80 != 0)
    }
    pub fn active_fat(&self) -> u64 {
        if self.mirroring() {
            0
        } else {
            u64::from(self.ext_flags & 0x0F)
        }
    }
    pub fn eoc_min(&self) -> u32 {
        match self.fat_bits {
            12 => 0xFF8,
            16 => 0xFFF8,
            _ => 0x0FFF_FFF8,
        }
    }
    pub fn bad_mark(&self) -> u32 {
        match self.fat_bits {
            12 => 0xFF7,
            16 => 0xFFF7,
            _ => 0x0FFF_FFF7,
        }
    }
    /// number of entries the FAT can physically hold
    pub fn fat_capacity(&self) -> u64 {
        self.fat_bytes() * 8 / u64::from(self.fat_bits)
    }
    pub fn region(&self, off: u64) -> Region {
        if off >= self.vol_end() {
            return Region::Beyond;
        }
        let res_end = self.reserved * self.bps;
        if off < res_end {
            if off == self.status_off {
                return Region::BootStatus;
            }
            if off < self.bps {
                return Region::BootOther;
            }
            if self.fat_bits == 32 {
                let s = off / self.bps;
                if s == self.fsinfo_sector && self.fsinfo_sector != 0 {
                    return Region::FsInfo;
                }
                if self.backup_sector != 0 && s == self.backup_sector {
                    return Region::BackupBoot;
                }
            }
            return Region::ReservedOther;
        }
        let fat_end = self.root_off();
        if off < fat_end {
            return Region::Fat(((off - res_end) / self.fat_bytes()) as u32);
        }
        if off < self.data_off() {
            return Region::RootDir;
        }
        let c = (off - self.data_off()) / self.cluster_size;
        if c < self.total_clusters {
            Region::Data(c as u32 + 2)
        } else {
            Region::Slack
        }
    }
}

// ------------------------------------------------------------------------------------------------
// FAT access

pub struct Vol<'a> {
    pub img: &'a Image,
    pub g: Geo,
}

impl<'a> Vol<'a> {
    pub fn new(img: &'a Image) -> Result<Self, String> {
        let g = geo_of(img)?;
        Ok(Vol { img, g })
    }
    /// raw entry of copy `copy` (FAT32: all 32 bits)
    pub fn fat_raw(&self, copy: u64, n: u64) -> u32 {
        let base = self.g.fat_off(copy);
        match self.g.fat_bits {
            12 => {
                let o = base + n + n / 2;
                let v = self.img.u16(o);
                u32::from(if n & 1 == 0 { v & 0x0FFF } else { v >> 4 })
            }
            16 => u32::from(self.img.u16(base + n * 2)),
            _ => self.img.u32(base + n * 4),
        }
    }
    /// value of the active (or first) copy, masked to the significant bits
    pub fn fat(&self, n: u32) -> u32 {
        let v = self.fat_raw(self.g.active_fat(), u64::from(n));
        if self.g.fat_bits == 32 {
            v & 0x0FFF_FFFF
        } else {
            v
        }
    }
    pub fn is_eoc(&self, v: u32) -> bool {
        v >= self.g.eoc_min()
    }
    pub fn is_bad(&self, v: u32) -> bool {
        v == self.g.bad_mark()
    }
    /// number of free entries in [2, total+1] of the active copy
    pub fn count_free(&self) -> u64 {
        let g = &self.g;
        let base = g.fat_off(g.active_fat());
        let mut free = 0u64;
        let last = g.max_cluster();
        match g.fat_bits {
            12 => {
                for n in 2..=last {
                    if self.fat(n as u32) == 0 {
                        free += 1;
                    }
                }
            }
            bits => {
                let esz = u64::from(bits / 8);
                let mut n = 2u64;
                while n <= last {
                    let off = base + n * esz;
                    // fast skip of unmapped zero pages
                    if let Some(0) = self.img.unmapped_fill(off) {
                        let page_end = (off / crate::dev::PAGE as u64 + 1) * crate::dev::PAGE as u64;
                        let cnt = ((page_end - off) / esz).min(last - n + 1);
                        free += cnt;
                        n += cnt;
                        continue;
                    }
                    if self.fat(n as u32) == 0 {
                        free += 1;
                    }
                    n += 1;
                }
            }
        }
        free
    }
    /// iterate over non-free entries in [2,total+1]: calls f(cluster, masked value)
    pub fn for_each_used(&self, mut f: impl FnMut(u32, u32)) {
        let g = &self.g;
        let base = g.fat_off(g.active_fat());
        let last = g.max_cluster();
        if g.fat_bits == 12 {
            for n in 2..=last {
                let v = self.fat(n as u32);
                if v != 0 {
                    f(n as u32, v);
                }
            }
            return;
        }
        let esz = u64::from(g.fat_bits / 8);
        let mut n = 2u64;
        while n <= last {
            let off = base + n * esz;
            if let Some(0) = self.img.unmapped_fill(off) {
                let page_end = (off / crate::dev::PAGE as u64 + 1) * crate::dev::PAGE as u64;
                let cnt = ((page_end - off) / esz).max(1).min(last - n + 1);
                n += cnt;
                continue;
            }
            let v = self.fat(n as u32);
            if v != 0 {
                f(n as u32, v);
            }
            n += 1;
        }
    }
    /// Follow a chain from `first`. Returns (clusters, problem)
    pub fn chain(&self, first: u32, max_len: u64) -> (Vec<u32>, Option<&'static str>) {
        let mut out = Vec::new();
        let mut seen: HashSet<u32> = HashSet::new();
        let mut c = first;
        loop {
            if !self.g.valid_cluster(c) {
                return (out, Some("I1-link-range"));
            }
            if !seen.insert(c) {
                return (out, Some("I2-cycle"));
            }
            out.push(c);
            if out.len() as u64 > max_len {
                return (out, Some("I1-chain-too-long"));
            }
            let v = self.fat(c);
            if self.is_eoc(v) {
                return (out, None);
            }
            if v == 0 {
                return (out, Some("I1-free-in-chain"));
            }
            if self.is_bad(v) {
                return (out, Some("I1-bad-in-chain"));
            }
            c = v;
        }
    }
}

// ------------------------------------------------------------------------------------------------
// Directory decoding

#[derive(Clone, Debug)]
pub struct DEntry {
    pub sfn: [u8; 11],
    pub attr: u8,
    pub nt: u8,
    pub ctenth: u8,
    pub ctime: u16,
    pub cdate: u16,
    pub adate: u16,
    pub mtime: u16,
    pub mdate: u16,
    pub first_cluster: u32,
    pub size: u32,
    /// long name by the strict specification state machine (None = no / broken run)
    pub lfn: Option<Vec<u16>>,
    /// the run had padding / terminator / reserved-field oddities (name still decoded)
    pub lfn_soft: bool,
    /// a run preceded this entry but was structurally broken
    pub lfn_broken: bool,
    /// device offset of the short entry slot
    pub sfn_off: u64,
    /// device offsets of the long-name slots attached to this entry (in directory order)
    pub run_offs: Vec<u64>,
    /// slot index of the short entry inside its directory
    pub idx: usize,
    /// the raw 32 bytes of the short entry
    pub raw: [u8; 32],
}

impl DEntry {
    pub fn is_dir(&self) -> bool {
        self.attr & 0x10 != 0
    }
    pub fn is_label(&self) -> bool {
        self.attr & 0x08 != 0
    }
    pub fn is_dot(&self) -> bool {
        &self.sfn == b".          "
    }
    pub fn is_dotdot(&self) -> bool {
        &self.sfn == b"..         "
    }
    /// 8.3 display form as bytes (NAME.EXT, 0x05 -> 0xE5)
    pub fn short_bytes(&self) -> Vec<u8> {
        short_display(&self.sfn)
    }
    /// name units as a lister should report them: long name, or 8.3 name with NT lowercase flags
    pub fn display_units(&self) -> Vec<u16> {
        if let Some(l) = &self.lfn {
            return l.clone();
        }
        let mut raw = self.sfn;
        if self.nt & 0x08 != 0 {
            raw[..8].make_ascii_lowercase();
        }
        if self.nt & 0x10 != 0 {
            raw[8..].make_ascii_lowercase();
        }
        short_display(&raw)
            .iter()
            .map(|b| if *b < 0x80 { u16::from(*b) } else { 0xFFFD })
            .collect()
    }
}

pub fn short_display(raw: &[u8; 11]) -> Vec<u8> {
    let mut base: Vec<u8> = raw[..8].to_vec();
    while base.last() == Some(&b' ') {
        base.pop();
    }
    let mut ext: Vec<u8> = raw[8..].to_vec();
    while ext.last() == Some(&b' ') {
        ext.pop();
    }
    if !ext.is_empty() {
        base.push(b'.');
        base.extend_from_slice(&ext);
    }
    if base.first() == Some(&0x05) {
        base[0] = 0xE5;
    }
    base
}

pub fn sfn_checksum(sfn: &[u8; 11]) -> u8 {
    let mut s: u8 = 0;
    for b in sfn {
        s = (if s & 1 != 0 { 0x80u8 } else { 0 }).wrapping_add(s >> 1).wrapping_add(*b);
    }
    s
}

#[derive(Clone, Debug)]
pub enum NodeKind {
    File { chain: Vec<u32>, content: Option<Vec<u8>> },
    Dir(Box<DDir>),
    Label,
    Dot,
    DotDot,
}

#[derive(Clone, Debug)]
pub struct DNode {
    pub e: DEntry,
    pub kind: NodeKind,
    pub id: u32,
}

#[derive(Clone, Debug, Default)]
pub struct DDir {
    /// 0 for the fixed root
    pub first_cluster: u32,
    pub chain: Vec<u32>,
    pub nodes: Vec<DNode>,
    pub nslots: usize,
    pub end_idx: Option<usize>,
    /// device offset of every slot
    pub slot_offs: Vec<u64>,
    /// slot states: 0 end/zero, 1 deleted, 2 lfn, 3 sfn, 4 label
    pub slot_kinds: Vec<u8>,
    pub id: u32,
}

#[derive(Clone, Debug, PartialEq, Eq)]
pub struct Diag {
    pub code: &'static str,
    pub msg: String,
    /// device offset of the first slot concerned (0 = not slot related)
    pub off: u64,
}

#[derive(Clone, Debug)]
pub struct ObjInfo {
    pub id: u32,
    pub path: String,
    pub is_dir: bool,
    pub entry_off: u64,
    pub chain: Vec<u32>,
    pub parent: u32,
}

pub struct Decoded {
    pub g: Geo,
    pub root: DDir,
    pub diags: Vec<Diag>,
    /// cluster -> object id (0 = root directory object)
    pub owner: HashMap<u32, u32>,
    pub objects: Vec<ObjInfo>,
    pub free_count: u64,
    pub status_byte: u8,
}

#[derive(Clone, Default)]
pub struct DecodeOpts {
    pub read_content: bool,
    /// (first cluster, size) overrides for entries with a live dirty handle, keyed by path ("/d/name")
    pub overrides: HashMap<String, (u32, u32)>,
    /// fold with full Unicode upper-casing (else ASCII only) for duplicate-name detection
    pub unicode_fold: bool,
    /// skip the lost-cluster scan (I3) – used on giant sparse volumes
    pub skip_lost_scan: bool,
}

pub fn fold_units(u: &[u16], unicode: bool) -> Vec<u32> {
    let mut out = Vec::new();
    for r in char::decode_utf16(u.iter().copied()) {
        match r {
            Ok(c) => {
                if unicode {
                    for x in c.to_uppercase() {
                        out.push(x as u32);
                    }
                } else {
                    out.push(c.to_ascii_uppercase() as u32);
                }
            }
            Err(e) => out.push(0x11_0000 + u32::from(e.unpaired_surrogate())),
        }
    }
    out
}

struct Ctx<'a, 'b> {
    v: &'b Vol<'a>,
    opts: &'b DecodeOpts,
    diags: Vec<Diag>,
    owner: HashMap<u32, u32>,
    objects: Vec<ObjInfo>,
    next_id: u32,
    dirs_seen: HashSet<u32>,
}

impl Ctx<'_, '_> {
    fn diag(&mut self, code: &'static str, msg: String) {
        if self.diags.len() < 64 {
            self.diags.push(Diag { code, msg, off: 0 });
        }
    }
    fn claim(&mut self, chain: &[u32], id: u32, path: &str) {
        for c in chain {
            if let Some(prev) = self.owner.insert(*c, id) {
                if prev != id {
                    self.diag("I2-crosslink", format!("cluster {} owned by objects {} and {} ({})", c, prev, id, path));
                }
            }
        }
    }
}

struct RawSlot {
    off: u64,
    b: [u8; 32],
}

fn read_slots(v: &Vol, first_cluster: u32, chain: &[u32]) -> Vec<RawSlot> {
    let mut out = Vec::new();
    if first_cluster == 0 && chain.is_empty() {
        // fixed root
        let base = v.g.root_off();
        // BPB_RootEntCnt*32 "should" fill whole sectors; when it does not, the region reserved for the
        // root is still RootDirSectors (rounded up) and writers may use the tail, so decode all of it
        let n = v.g.root_len() / 32;
        let bytes = v.img.bytes(base, (n * 32) as usize);
        for i in 0..n as usize {
            let mut b = [0u8; 32];
            b.copy_from_slice(&bytes[i * 32..i * 32 + 32]);
            out.push(RawSlot {
                off: base + (i as u64) * 32,
                b,
            });
        }
    } else {
        for c in chain {
            let base = v.g.cluster_off(*c);
            let bytes = v.img.bytes(base, v.g.cluster_size as usize);
            for i in 0..(v.g.cluster_size / 32) as usize {
                let mut b = [0u8; 32];
                b.copy_from_slice(&bytes[i * 32..i * 32 + 32]);
                out.push(RawSlot {
                    off: base + (i as u64) * 32,
                    b,
                });
            }
        }
    }
    out
}

struct Pending {
    /// (ord, checksum, units, off, soft)
    parts: Vec<(u8, u8, [u16; 13], u64, bool)>,
    expect_next: u8,
    broken: bool,
}

/// Decode the slot list of one directory into entries (no recursion). Public so that C17 can run the
/// independent state machine on crafted slot streams.
pub fn decode_slots(slots: &[(u64, [u8; 32])], in_root: bool, path: &str, diags: &mut Vec<Diag>) -> (Vec<DEntry>, Option<usize>, Vec<u8>) {
    let mut entries = Vec::new();
    let mut kinds = Vec::with_capacity(slots.len());
    let mut end_idx: Option<usize> = None;
    let mut pending: Option<Pending> = None;
    let push_diag_at = |code: &'static str, msg: String, off: u64, diags: &mut Vec<Diag>| {
        if diags.len() < 64 {
            diags.push(Diag { code, msg, off });
        }
    };
    let push_diag = |code: &'static str, msg: String, diags: &mut Vec<Diag>| push_diag_at(code, msg, 0, diags);
    for (i, (off, b)) in slots.iter().enumerate() {
        if let Some(e) = end_idx {
            // after the end marker everything must be zero-first-byte
            kinds.push(0);
            if b[0] != 0 {
                push_diag(
                    "I6-after-end",
                    format!("{}: slot {} (first byte {:#x}) follows end marker at {}", path, i, b[0], e),
                    diags,
                );
                // report only once per directory
                end_idx = Some(usize::MAX);
            }
            continue;
        }
        if b[0] == 0 {
            kinds.push(0);
            if let Some(p) = pending.take() {
                push_diag_at("I7-orphan-lfn", format!("{}: long-name run dangling at end marker (slot {})", path, i), p.parts[0].3, diags);
            }
            end_idx = Some(i);
            continue;
        }
        if b[0] == 0xE5 {
            kinds.push(1);
            if let Some(p) = pending.take() {
                push_diag_at("I7-orphan-lfn", format!("{}: long-name run interrupted by deleted slot {}", path, i), p.parts[0].3, diags);
            }
            continue;
        }
        let attr = b[11];
        if attr & 0x3F == 0x0F {
            kinds.push(2);
            let ord = b[0];
            let chk = b[13];
            let mut units = [0u16; 13];
            let pos = [1usize, 3, 5, 7, 9, 14, 16, 18, 20, 22, 24, 28, 30];
            for (k, p) in pos.iter().enumerate() {
                units[k] = le16(b, *p);
            }
            let soft = b[12] != 0 || b[26] != 0 || b[27] != 0 || attr != 0x0F || ord & 0xA0 != 0;
            let idx = ord & 0x1F;
            if ord & 0x40 != 0 {
                if let Some(p) = &pending {
                    push_diag_at("I7-orphan-lfn", format!("{}: long-name run restarted at slot {}", path, i), p.parts[0].3, diags);
                }
                let bad = idx == 0 || idx > 20;
                if bad {
                    push_diag("I7-order", format!("{}: first long-name slot {} has order {:#x}", path, i, ord), diags);
                }
                pending = Some(Pending {
                    parts: vec![(idx, chk, units, *off, soft)],
                    expect_next: idx.wrapping_sub(1),
                    broken: bad,
                });
            } else {
                match pending.as_mut() {
                    None => {
                        push_diag_at("I7-order", format!("{}: long-name slot {} (order {:#x}) without a start", path, i, ord), *off, diags);
                        pending = Some(Pending {
                            parts: vec![(idx, chk, units, *off, soft)],
                            expect_next: idx.wrapping_sub(1),
                            broken: true,
                        });
                    }
                    Some(p) => {
                        if p.expect_next == 0 || idx != p.expect_next || chk != p.parts[0].1 {
                            if !p.broken {
                                push_diag(
                                    "I7-order",
                                    format!("{}: long-name slot {} order {:#x}/chk {:#x}, expected order {} chk {:#x}", path, i, ord, chk, p.expect_next, p.parts[0].1),
                                    diags,
                                );
                            }
                            p.broken = true;
                        }
                        p.parts.push((idx, chk, units, *off, soft));
                        p.expect_next = idx.wrapping_sub(1);
                    }
                }
            }
            continue;
        }
        // short entry or label
        let mut sfn = [0u8; 11];
        sfn.copy_from_slice(&b[..11]);
        let is_label = attr & 0x08 != 0;
        kinds.push(if is_label { 4 } else { 3 });
        let mut e = DEntry {
            sfn,
            attr,
            nt: b[12],
            ctenth: b[13],
            ctime: le16(b, 14),
            cdate: le16(b, 16),
            adate: le16(b, 18),
            mtime: le16(b, 22),
            mdate: le16(b, 24),
            first_cluster: (u32::from(le16(b, 20)) << 16) | u32::from(le16(b, 26)),
            size: le32(b, 28),
            lfn: None,
            lfn_soft: false,
            lfn_broken: false,
            sfn_off: *off,
            run_offs: Vec::new(),
            idx: i,
            raw: *b,
        };
        if let Some(p) = pending.take() {
            if is_label {
                push_diag_at("I7-orphan-lfn", format!("{}: long-name run followed by a volume label at slot {}", path, i), p.parts[0].3, diags);
                e.lfn_broken = true;
            } else {
                let mut ok = !p.broken;
                if ok && p.expect_next != 0 {
                    ok = false;
                    push_diag("I7-order", format!("{}: long-name run before slot {} stops at order {}", path, i, p.expect_next + 1), diags);
                }
                if ok && p.parts[0].1 != sfn_checksum(&sfn) {
                    ok = false;
                    push_diag(
                        "I7-checksum",
                        format!("{}: long-name checksum {:#x} != short-name checksum {:#x} at slot {}", path, p.parts[0].1, sfn_checksum(&sfn), i),
                        diags,
                    );
                }
                if ok {
                    // assemble: parts are in descending order
                    let mut all: Vec<u16> = Vec::new();
                    for part in p.parts.iter().rev() {
                        all.extend_from_slice(&part.2);
                    }
                    let mut soft = p.parts.iter().any(|x| x.4);
                    let term = all.iter().position(|u| *u == 0);
                    let name: Vec<u16> = match term {
                        Some(t) => {
                            if all[t + 1..].iter().any(|u| *u != 0xFFFF) {
                                soft = true;
                                push_diag("I7-pad", format!("{}: long name before slot {} not 0xFFFF padded after terminator", path, i), diags);
                            }
                            if t + 13 < all.len() || t == 0 {
                                // the terminator is not in the last slot / empty name
                                soft = true;
                                push_diag("I7-pad", format!("{}: long name before slot {} terminates early", path, i), diags);
                            }
                            all[..t].to_vec()
                        }
                        None => all.clone(),
                    };
                    if name.iter().any(|u| *u == 0xFFFF) && term.is_none() {
                        soft = true;
                        push_diag("I7-pad", format!("{}: long name before slot {} has 0xFFFF without terminator", path, i), diags);
                    }
                    if p.parts.iter().any(|x| x.4) {
                        push_diag("I7-fields", format!("{}: long-name slots before {} have non-zero reserved fields/flags", path, i), diags);
                    }
                    if name.len() > 255 {
                        push_diag("I7-len", format!("{}: long name of {} units before slot {}", path, name.len(), i), diags);
                        e.lfn_broken = true;
                    } else {
                        e.lfn = Some(name);
                        e.lfn_soft = soft;
                        e.run_offs = p.parts.iter().map(|x| x.3).collect();
                    }
                } else {
                    e.lfn_broken = true;
                }
            }
        }
        if is_label && !in_root {
            push_diag("I11-label-outside-root", format!("{}: label entry at slot {}", path, i), diags);
        }
        entries.push(e);
    }
    if let (Some(p), None) = (&pending, end_idx) {
        push_diag_at("I7-orphan-lfn", format!("{}: long-name run dangling at the end of the directory", path), p.parts[0].3, diags);
    }
    let end = match end_idx {
        Some(usize::MAX) => None,
        x => x,
    };
    (entries, end, kinds)
}

fn decode_dir(ctx: &mut Ctx, first_cluster: u32, chain: Vec<u32>, path: &str, self_id: u32, parent_cluster: u32, depth: u32) -> DDir {
    let raw = read_slots(ctx.v, first_cluster, &chain);
    let slots: Vec<(u64, [u8; 32])> = raw.iter().map(|s| (s.off, s.b)).collect();
    let in_root = depth == 0;
    let mut diags = std::mem::take(&mut ctx.diags);
    let (entries, end_idx, kinds) = decode_slots(&slots, in_root, path, &mut diags);
    ctx.diags = diags;
    let mut dir = DDir {
        first_cluster,
        chain,
        nodes: Vec::new(),
        nslots: slots.len(),
        end_idx,
        slot_offs: slots.iter().map(|s| s.0).collect(),
        slot_kinds: kinds,
        id: self_id,
    };
    // I5 dot entries
    if !in_root {
        let live: Vec<&DEntry> = entries.iter().collect();
        let ok0 = live.first().map_or(false, |e| e.idx == 0 && e.is_dot() && e.is_dir() && e.lfn.is_none() && !e.lfn_broken);
        let ok1 = live.get(1).map_or(false, |e| e.idx == 1 && e.is_dotdot() && e.is_dir() && e.lfn.is_none() && !e.lfn_broken);
        if !ok0 || !ok1 {
            ctx.diag("I5-missing", format!("{}: directory does not start with . and .. entries", path));
        } else {
            if live[0].first_cluster != first_cluster {
                ctx.diag("I5-dot", format!("{}: '.' points to cluster {} but directory starts at {}", path, live[0].first_cluster, first_cluster));
            }
            if live[1].first_cluster != parent_cluster {
                ctx.diag(
                    "I5-dotdot",
                    format!("{}: '..' points to cluster {} but parent starts at {}", path, live[1].first_cluster, parent_cluster),
                );
            }
        }
    }
    // I8 duplicates
    {
        let mut longs: HashMap<Vec<u32>, usize> = HashMap::new();
        let mut shorts: HashMap<[u8; 11], usize> = HashMap::new();
        for e in &entries {
            if e.is_label() {
                continue;
            }
            if let Some(prev) = shorts.insert(e.sfn, e.idx) {
                ctx.diag("I8-dup-short", format!("{}: slots {} and {} share short name {:?}", path, prev, e.idx, String::from_utf8_lossy(&e.sfn)));
            }
            if let Some(l) = &e.lfn {
                let f = fold_units(l, ctx.opts.unicode_fold);
                if let Some(prev) = longs.insert(f, e.idx) {
                    ctx.diag("I8-dup-long", format!("{}: slots {} and {} share a long name (case-folded)", path, prev, e.idx));
                }
            }
        }
    }
    for e in entries {
        let id = ctx.next_id;
        ctx.next_id += 1;
        let name_s = String::from_utf16_lossy(&e.display_units());
        let child_path = format!("{}/{}", path.trim_end_matches('/'), name_s);
        if e.is_label() {
            dir.nodes.push(DNode { e, kind: NodeKind::Label, id });
            continue;
        }
        if !in_root && e.idx < 2 && (e.is_dot() || e.is_dotdot()) {
            let kind = if e.is_dot() { NodeKind::Dot } else { NodeKind::DotDot };
            dir.nodes.push(DNode { e, kind, id });
            continue;
        }
        if e.is_dot() || e.is_dotdot() {
            ctx.diag("I5-stray-dot", format!("{}: dot entry at slot {}", path, e.idx));
        }
        let (fc, size) = match ctx.opts.overrides.get(&child_path) {
            Some(o) if !e.is_dir() => *o,
            _ => (e.first_cluster, e.size),
        };
        if e.is_dir() {
            if e.size != 0 {
                ctx.diag("I9-dir-size", format!("{}: directory entry with size {}", child_path, e.size));
            }
            if fc == 0 {
                ctx.diag("I9-dir-nocluster", format!("{}: directory entry without a cluster", child_path));
                dir.nodes.push(DNode {
                    e,
                    kind: NodeKind::Dir(Box::default()),
                    id,
                });
                continue;
            }
            let (chain, prob) = ctx.v.chain(fc, ctx.v.g.total_clusters + 1);
            if let Some(p) = prob {
                ctx.diag(p, format!("{}: directory chain from {} broken after {} clusters", child_path, fc, chain.len()));
            }
            ctx.claim(&chain, id, &child_path);
            ctx.objects.push(ObjInfo {
                id,
                path: child_path.clone(),
                is_dir: true,
                entry_off: e.sfn_off,
                chain: chain.clone(),
                parent: self_id,
            });
            let sub = if depth > 40 || !ctx.dirs_seen.insert(fc) {
                ctx.diag("I2-dir-loop", format!("{}: directory cluster {} reached twice / too deep", child_path, fc));
                DDir::default()
            } else {
                decode_dir(ctx, fc, chain, &child_path, id, first_cluster_for_dotdot(ctx.v, first_cluster, in_root), depth + 1)
            };
            dir.nodes.push(DNode {
                e,
                kind: NodeKind::Dir(Box::new(sub)),
                id,
            });
        } else {
            let cs = ctx.v.g.cluster_size;
            let need = (u64::from(size) + cs - 1) / cs;
            let mut chain = Vec::new();
            if fc == 0 {
                if size != 0 {
                    ctx.diag("I4-nonempty-no-cluster", format!("{}: size {} but no first cluster", child_path, size));
                }
            } else {
                let (ch, prob) = ctx.v.chain(fc, ctx.v.g.total_clusters + 1);
                if let Some(p) = prob {
                    ctx.diag(p, format!("{}: file chain from {} broken after {} clusters", child_path, fc, ch.len()));
                }
                if size == 0 {
                    ctx.diag("I4-empty-has-cluster", format!("{}: size 0 but first cluster {}", child_path, fc));
                } else if ch.len() as u64 != need && prob.is_none() {
                    ctx.diag("I4-chain-len", format!("{}: size {} needs {} clusters, chain has {}", child_path, size, need, ch.len()));
                }
                ctx.claim(&ch, id, &child_path);
                chain = ch;
            }
            ctx.objects.push(ObjInfo {
                id,
                path: child_path.clone(),
                is_dir: false,
                entry_off: e.sfn_off,
                chain: chain.clone(),
                parent: self_id,
            });
            let content = if ctx.opts.read_content {
                let mut data = Vec::with_capacity(size as usize);
                let mut left = u64::from(size);
                for c in &chain {
                    if left == 0 {
                        break;
                    }
                    let n = left.min(cs);
                    data.extend_from_slice(&ctx.v.img.bytes(ctx.v.g.cluster_off(*c), n as usize));
                    left -= n;
                }
                Some(data)
            } else {
                None
            };
            dir.nodes.push(DNode {
                e,
                kind: NodeKind::File { chain, content },
                id,
            });
        }
    }
    dir
}

fn first_cluster_for_dotdot(_v: &Vol, first_cluster: u32, in_root: bool) -> u32 {
    // '..' of a child of the root directory must be 0 (also on FAT32)
    if in_root {
        0
    } else {
        first_cluster
    }
}

pub fn decode(img: &Image, opts: &DecodeOpts) -> Result<Decoded, String> {
    let v = Vol::new(img)?;
    let mut ctx = Ctx {
        v: &v,
        opts,
        diags: Vec::new(),
        owner: HashMap::new(),
        objects: Vec::new(),
        next_id: 1,
        dirs_seen: HashSet::new(),
    };
    let g = v.g.clone();
    let (root_first, root_chain) = if g.fat_bits == 32 {
        let (ch, prob) = v.chain(g.root_cluster, g.total_clusters + 1);
        if let Some(p) = prob {
            ctx.diag("I10-root", format!("root chain: {}", p));
        }
        ctx.claim(&ch, 0, "/");
        ctx.dirs_seen.insert(g.root_cluster);
        (g.root_cluster, ch)
    } else {
        (0, Vec::new())
    };
    ctx.objects.push(ObjInfo {
        id: 0,
        path: "/".into(),
        is_dir: true,
        entry_off: 0,
        chain: root_chain.clone(),
        parent: 0,
    });
    let root = decode_dir(&mut ctx, root_first, root_chain, "/", 0, 0, 0);
    // I3 lost clusters + free count
    let mut free_count = 0;
    if !opts.skip_lost_scan {
        free_count = v.count_free();
        let mut lost = 0u64;
        let mut first_lost = 0u32;
        let owner = &ctx.owner;
        let bad = g.bad_mark();
        v.for_each_used(|c, val| {
            if val == bad {
                return;
            }
            if !owner.contains_key(&c) {
                if lost == 0 {
                    first_lost = c;
                }
                lost += 1;
            }
        });
        if lost > 0 {
            ctx.diag("I3-lost", format!("{} allocated cluster(s) not referenced by any entry (first: {})", lost, first_lost));
        }
    }
    let status_byte = img.u8(g.status_off);
    let Ctx { diags, owner, objects, .. } = ctx;
    Ok(Decoded {
        g,
        root,
        diags,
        owner,
        objects,
        free_count,
        status_byte,
    })
}

// ------------------------------------------------------------------------------------------------
// FAT-level checks shared by C10 / C06

/// Compare FAT copies byte for byte. Returns description of the first difference.
pub fn fat_copies_differ(img: &Image, g: &Geo) -> Option<String> {
    if g.nfats < 2 {
        return None;
    }
    let len = g.fat_bytes();
    let mut off = 0u64;
    let step = crate::dev::PAGE as u64;
    while off < len {
        let n = step.min(len - off) as usize;
        let a_off = g.fat_off(0) + off;
        // quick skip when the whole range lies in unmapped pages of equal fill in every copy
        if let Some(fa) = img.unmapped_fill(a_off) {
            if img.unmapped_fill(a_off + n as u64 - 1) == Some(fa) && (1..g.nfats).all(|c| {
                let b_off = g.fat_off(c) + off;
                img.unmapped_fill(b_off) == Some(fa) && img.unmapped_fill(b_off + n as u64 - 1) == Some(fa)
            }) {
                off += n as u64;
                continue;
            }
        }
        let a = img.bytes(a_off, n);
        for c in 1..g.nfats {
            let b = img.bytes(g.fat_off(c) + off, n);
            if a != b {
                let i = a.iter().zip(b.iter()).position(|(x, y)| x != y).unwrap();
                return Some(format!("FAT copy 0 and {} differ at table byte {} ({:#04x} vs {:#04x})", c, off + i as u64, a[i], b[i]));
            }
        }
        off += n as u64;
    }
    None
}

/// FS-info sector fields (free count, next free) if the signatures are present
pub fn fsinfo(img: &Image, g: &Geo) -> Option<(u32, u32)> {
    if g.fat_bits != 32 {
        return None;
    }
    let o = g.fsinfo_sector * g.bps;
    if img.u32(o) != 0x4161_5252 || img.u32(o + 484) != 0x6141_7272 || img.u32(o + 508) != 0xAA55_0000 {
        return None;
    }
    Some((img.u32(o + 488), img.u32(o + 492)))
}

// ------------------------------------------------------------------------------------------------
// Tree flattening helpers

#[derive(Clone, Debug, PartialEq, Eq, PartialOrd, Ord)]
pub struct FlatEntry {
    /// path components as UTF-16 unit vectors
    pub path: Vec<Vec<u16>>,
    pub is_dir: bool,
    pub size: u32,
    pub attr: u8,
    pub sfn: [u8; 11],
    pub times: [u16; 5],
    pub ctenth: u8,
    pub content_hash: u64,
}

pub fn flatten(d: &DDir, prefix: &mut Vec<Vec<u16>>, out: &mut Vec<FlatEntry>) {
    for n in &d.nodes {
        match &n.kind {
            NodeKind::Label | NodeKind::Dot | NodeKind::DotDot => {}
            NodeKind::File { content, .. } => {
                let mut p = prefix.clone();
                p.push(n.e.display_units());
                let mut f = crate::util::Fnv::new();
                if let Some(c) = content {
                    f.bytes(c);
                }
                out.push(FlatEntry {
                    path: p,
                    is_dir: false,
                    size: n.e.size,
                    attr: n.e.attr,
                    sfn: n.e.sfn,
                    times: [n.e.ctime, n.e.cdate, n.e.adate, n.e.mtime, n.e.mdate],
                    ctenth: n.e.ctenth,
                    content_hash: f.get(),
                });
            }
            NodeKind::Dir(sub) => {
                let mut p = prefix.clone();
                p.push(n.e.display_units());
                out.push(FlatEntry {
                    path: p.clone(),
                    is_dir: true,
                    size: 0,
                    attr: n.e.attr,
                    sfn: n.e.sfn,
                    times: [n.e.ctime, n.e.cdate, n.e.adate, n.e.mtime, n.e.mdate],
                    ctenth: n.e.ctenth,
                    content_hash: 0,
                });
                prefix.push(n.e.display_units());
                flatten(sub, prefix, out);
                prefix.pop();
            }
        }
    }
}

pub fn root_label(d: &DDir) -> Option<[u8; 11]> {
    for n in &d.nodes {
        if let NodeKind::Label = n.kind {
            return Some(n.e.sfn);
        }
    }
    None
}

/// deterministic summary of diagnostics for signatures
pub fn diag_codes(d: &[Diag]) -> Vec<&'static str> {
    let mut v: Vec<&'static str> = d.iter().map(|x| x.code).collect();
    v.sort_unstable();
    v.dedup();
    v
}

pub fn map_by_off(d: &DDir, out: &mut BTreeMap<u64, DEntry>) {
    for n in &d.nodes {
        out.insert(n.e.sfn_off, n.e.clone());
        if let NodeKind::Dir(s) = &n.kind {
            map_by_off(s, out);
        }
    }
}
